//! Complete (loop-free, full-domain) Kani harnesses for the numeric conversions whose bodies use
//! `u16::to_be_bytes`, which Verus cannot specify.  They prove exactly the contracts that
//! /verif/contracts/packet.contract ASSUMES for `Opcode::as_bytes` and `ErrorCode::as_bytes`, plus the
//! inverse property over the whole 16-bit range (C11).
#[cfg(kani)]
mod proofs {
    use tftpd::{ErrorCode, Opcode, Packet};

    /// wire layout of ACK for all block numbers (RFC 1350): 00 04 hi lo -- and decode(encode) == identity
    #[kani::proof]
    #[kani::unwind(6)]
    fn ack_layout_and_roundtrip_all_u16() {
        let n: u16 = kani::any();
        let b = Packet::Ack(n).serialize().unwrap();
        assert!(b.len() == 4 && b[0] == 0 && b[1] == 4 && b[2] == (n / 256) as u8 && b[3] == (n % 256) as u8);
        match Packet::deserialize(&b) {
            Ok(Packet::Ack(m)) => assert!(m == n),
            _ => assert!(false),
        }
    }

    fn opcode_num(o: &Opcode) -> u16 {
        match o {
            Opcode::Rrq => 1,
            Opcode::Wrq => 2,
            Opcode::Data => 3,
            Opcode::Ack => 4,
            Opcode::Error => 5,
            Opcode::Oack => 6,
        }
    }

    /// contract packet.opcode.as_bytes.post.big_endian + inverse over all u16
    #[kani::proof]
    fn opcode_roundtrip_all_u16() {
        let v: u16 = kani::any();
        match Opcode::from_u16(v) {
            Ok(o) => {
                assert!((1..=6).contains(&v));
                assert!(opcode_num(&o) == v);
                let b = o.as_bytes();
                assert!(b[0] == (v / 256) as u8 && b[1] == (v % 256) as u8);
            }
            Err(_) => assert!(!(1..=6).contains(&v)),
        }
    }

    /// contract packet.errorcode.as_bytes.post.big_endian + inverse over all u16
    #[kani::proof]
    fn errorcode_roundtrip_all_u16() {
        let v: u16 = kani::any();
        match ErrorCode::from_u16(v) {
            Ok(c) => {
                assert!(v <= 7);
                assert!(c as u16 == v);
                let b = c.as_bytes();
                assert!(b[0] == 0 && b[1] == v as u8);
            }
            Err(_) => assert!(v > 7),
        }
    }
}
