//! Ghost vocabulary shared by all contracts (woven into the scratch copy as `mod verif_spec`).
//! Part 1 is TRUSTED (assumed specifications of std); part 2 is pure specification and proved lemmas.
#![allow(missing_docs)]
use vstd::prelude::*;
use std::collections::VecDeque;
use std::fs::File;
use vstd::std_specs::iter::IteratorSpec;
use crate::packet::{Packet, TransferOption, OptionType, ErrorCode, Opcode};

verus! {

// =============================================================================================
// PART 1 -- TRUSTED: specifications of std items (assumed, never proved)
// =============================================================================================

#[verifier::external_trait_specification]
pub trait ExError: core::fmt::Debug + core::fmt::Display {
    type ExternalTraitSpecificationFor: core::error::Error;
}

#[verifier::external_type_specification]
#[verifier::external_body]
pub struct ExFile(File);

#[verifier::external_type_specification]
#[verifier::external_body]
pub struct ExIoError(std::io::Error);

#[verifier::external_type_specification]
#[verifier::external_body]
pub struct ExSocketAddr(std::net::SocketAddr);

#[verifier::external_type_specification]
#[verifier::external_body]
pub struct ExUdpSocket(std::net::UdpSocket);

#[verifier::external_type_specification]
#[verifier::external_body]
pub struct ExPathBuf(std::path::PathBuf);

#[verifier::external_type_specification]
#[verifier::external_body]
pub struct ExPath(std::path::Path);

#[verifier::external_type_specification]
#[verifier::external_body]
pub struct ExInstant(std::time::Instant);

#[verifier::external_type_specification]
#[verifier::external_body]
#[verifier::reject_recursive_types(T)]
pub struct ExJoinHandle<T>(std::thread::JoinHandle<T>);

/// File model.  `file_data` is the content, `file_pos` the cursor of this handle.
pub uninterp spec fn file_data(f: File) -> Seq<u8>;
pub uninterp spec fn file_pos(f: File) -> nat;

/// ASSUMPTION "regular files do full reads": `read` returns min(buf.len, remaining) bytes taken at
/// the cursor and advances the cursor; the content is unchanged.  On error nothing is known about
/// the cursor, the content is unchanged.
pub assume_specification[ <File as std::io::Read>::read ](f: &mut File, buf: &mut [u8]) -> (r: Result<usize, std::io::Error>)
    ensures
        file_data(*final(f)) == file_data(*old(f)),
        final(buf)@.len() == old(buf)@.len(),
        r matches Ok(n) ==> {
            &&& file_pos(*old(f)) <= file_data(*old(f)).len()
            &&& n as nat == (if old(buf)@.len() <= file_data(*old(f)).len() - file_pos(*old(f)) { old(buf)@.len() as nat } else { (file_data(*old(f)).len() - file_pos(*old(f))) as nat })
            &&& file_pos(*final(f)) == file_pos(*old(f)) + n
            &&& final(buf)@.subrange(0, n as int) == file_data(*old(f)).subrange(file_pos(*old(f)) as int, file_pos(*old(f)) + n)
        };

/// project-local wrapper spec for `Write::write_all` on a File is given where it is used
/// (assume_specification of provided trait methods is rejected by Verus).

pub assume_specification<T, A: core::alloc::Allocator>[ VecDeque::<T, A>::is_empty ](v: &VecDeque<T, A>) -> (r: bool)
    ensures r == (v@.len() == 0);


#[verifier::external_type_specification]
#[verifier::external_body]
#[verifier::reject_recursive_types(T)]
#[verifier::reject_recursive_types(A)]
pub struct ExVecDequeDrain<'a, T: 'a, A: core::alloc::Allocator>(std::collections::vec_deque::Drain<'a, T, A>);

/// bounds denoted by a `RangeBounds` value (only `Range<usize>` is given a meaning, by the axiom below)
pub uninterp spec fn rb_start<R>(r: R) -> int;
pub uninterp spec fn rb_end<R>(r: R) -> int;
pub axiom fn axiom_range_bounds(r: core::ops::Range<usize>)
    ensures #![trigger rb_start(r)] #![trigger rb_end(r)] rb_start(r) == r.start, rb_end(r) == r.end;

/// ASSUMPTION: `drain(a..b)` followed by dropping the iterator removes exactly the elements a..b
/// (the removal is complete when the borrow ends).
pub assume_specification<T, A: core::alloc::Allocator, R: core::ops::RangeBounds<usize>>[ VecDeque::<T, A>::drain::<R> ](v: &mut VecDeque<T, A>, range: R) -> (r: std::collections::vec_deque::Drain<'_, T, A>)
    requires 0 <= rb_start(range) <= rb_end(range) <= old(v)@.len(),
    ensures final(v)@ == old(v)@.subrange(0, rb_start(range)) + old(v)@.subrange(rb_end(range), old(v)@.len() as int);

/// ASSUMPTION: `to_vec` copies the slice.  Stated as equality of views, which is exact for `Copy`
/// element types; the crate calls it only on `[u8]` and `[TransferOption]` (both `Copy`).
pub assume_specification<T: Clone>[ <[T]>::to_vec ](s: &[T]) -> (r: Vec<T>)
    ensures r@ == s@;

pub assume_specification[ std::thread::sleep ](_0: std::time::Duration);

pub assume_specification<T>[ std::mem::drop ](_0: T) where T: std::marker::Destruct;

/// `std::io::Write`: only `write_all` is given a meaning, through the uninterpreted relation
/// `write_all_post`, which the axiom below defines for `File` (append; on error a prefix was appended).
pub uninterp spec fn write_all_post<W: ?Sized>(pre: &W, post: &W, buf: Seq<u8>, ok: bool) -> bool;

#[verifier::external_trait_specification]
pub trait ExWrite {
    type ExternalTraitSpecificationFor: std::io::Write;
    fn write(&mut self, buf: &[u8]) -> std::io::Result<usize>;
    fn flush(&mut self) -> std::io::Result<()>;
    fn write_all(&mut self, buf: &[u8]) -> (r: std::io::Result<()>)
        ensures write_all_post(&*old(self), &*final(self), buf@, r is Ok);
}

/// `post` is `pre` followed by a prefix of `total`
pub open spec fn appended_prefix(post: Seq<u8>, pre: Seq<u8>, total: Seq<u8>) -> bool {
    exists|k: int| 0 <= k <= total.len() && post == pre + #[trigger] total.subrange(0, k)
}

/// ASSUMPTION: `write_all` on a file appends the bytes; on error a prefix of them was appended.
pub broadcast axiom fn axiom_file_write_all(pre: File, post: File, buf: Seq<u8>, ok: bool)
    requires #[trigger] write_all_post(&pre, &post, buf, ok),
    ensures
        ok ==> file_data(post) == file_data(pre) + buf,
        !ok ==> appended_prefix(file_data(post), file_data(pre), buf);

/// ASSUMPTION: iterating `&VecDeque` yields references to its elements in order (mirrors vstd's spec of `iter()`).
pub assume_specification<'a, T, A: core::alloc::Allocator>[ <&'a VecDeque<T, A> as core::iter::IntoIterator>::into_iter ](v: &'a VecDeque<T, A>) -> (r: std::collections::vec_deque::Iter<'a, T>)
    ensures
        r.remaining() == v@.map_values(|x: T| &x),
        r.obeys_prophetic_iter_laws(),
        r.decrease() is Some;

// =============================================================================================
// PART 2 -- pure specification vocabulary and proved lemmas
// =============================================================================================

// ---- packets and traces -----------------------------------------------------------------------

/// mathematical view of a `Packet` (Vec / String replaced by sequences)
pub enum PktV {
    Rrq { filename: Seq<char>, mode: Seq<char>, options: Seq<TransferOption> },
    Wrq { filename: Seq<char>, mode: Seq<char>, options: Seq<TransferOption> },
    Data { block_num: u16, data: Seq<u8> },
    Ack(u16),
    Error { code: ErrorCode, msg: Seq<char> },
    Oack(Seq<TransferOption>),
}

pub open spec fn pkt_view(p: Packet) -> PktV {
    match p {
        Packet::Rrq { filename, mode, options } => PktV::Rrq { filename: filename@, mode: mode@, options: options@ },
        Packet::Wrq { filename, mode, options } => PktV::Wrq { filename: filename@, mode: mode@, options: options@ },
        Packet::Data { block_num, data } => PktV::Data { block_num, data: data@ },
        Packet::Ack(n) => PktV::Ack(n),
        Packet::Error { code, msg } => PktV::Error { code, msg: msg@ },
        Packet::Oack(options) => PktV::Oack(options@),
    }
}

/// what a receive attempt produced: `None` = time-out, I/O error or undecodable datagram
pub open spec fn recv_view(r: Result<Packet, Box<dyn std::error::Error>>) -> Option<PktV> {
    match r {
        Ok(p) => Some(pkt_view(p)),
        Err(_) => None,
    }
}

/// Ghost record of one transfer (one `Worker` run).  It is threaded through every function that can
/// emit; the weaver pushes onto `ev` in front of every call of a leaf `Socket::send` and updates the
/// receive fields behind every receive call.
pub tracked struct Trace {
    /// every datagram handed to the socket, in order
    pub ghost ev: Seq<PktV>,
    /// number of emissions that have been justified (granted by the contract) but not made yet
    pub ghost credit: nat,
    /// result of the most recent receive attempt
    pub ghost last: Option<PktV>,
    /// consecutive receive attempts that brought nothing usable (drives the retry bound)
    pub ghost fails: nat,
    /// receiver only: payloads accepted so far (in-sequence DATA blocks, each once)
    pub ghost accepted: Seq<Seq<u8>>,
    /// receiver only: an accepted block was shorter than the block size (transfer complete)
    pub ghost fin: bool,
}

/// n copies of x
pub open spec fn rep(x: PktV, n: nat) -> Seq<PktV> { Seq::new(n, |i: int| x) }

/// block number on the wire of the block with true (unbounded) index j
pub open spec fn wire(j: int) -> u16 { (j % 65536) as u16 }

/// the datagrams one transmission of a window consists of: piece i carries number wire(base + i), each `n` times
pub open spec fn window_events(elems: Seq<Seq<u8>>, bn: u16, n: nat) -> Seq<PktV>
    decreases elems.len()
{
    if elems.len() == 0 { Seq::<PktV>::empty() }
    else { window_events(elems.drop_last(), bn, n) + rep(data_ev(bn, elems.len() - 1, elems.last()), n) }
}

pub open spec fn data_ev(bn: u16, i: int, d: Seq<u8>) -> PktV { PktV::Data { block_num: wire(bn + i), data: d } }

pub proof fn lemma_window_events_step(s: Seq<Seq<u8>>, bn: u16, n: nat, i: int)
    requires 0 <= i < s.len(),
    ensures window_events(s.subrange(0, i + 1), bn, n) == window_events(s.subrange(0, i), bn, n) + rep(data_ev(bn, i, s[i]), n),
{
    assert(s.subrange(0, i + 1).drop_last() =~= s.subrange(0, i));
}

pub open spec fn is_prefix<A>(p: Seq<A>, s: Seq<A>) -> bool { p.len() <= s.len() && p == s.subrange(0, p.len() as int) }

pub proof fn lemma_prefix_ext<A>(p: Seq<A>, s: Seq<A>, t: Seq<A>)
    requires is_prefix(p, s),
    ensures is_prefix(p, s + t),
{
    assert((s + t).subrange(0, p.len() as int) =~= s.subrange(0, p.len() as int));
}

pub proof fn lemma_window_events_prefix(s: Seq<Seq<u8>>, bn: u16, n: nat, i: int)
    requires 0 <= i <= s.len(),
    ensures is_prefix(window_events(s.subrange(0, i), bn, n), window_events(s, bn, n)),
    decreases s.len() - i,
{
    if i == s.len() {
        assert(s.subrange(0, i) =~= s);
        assert(window_events(s, bn, n).subrange(0, window_events(s, bn, n).len() as int) =~= window_events(s, bn, n));
    } else {
        lemma_window_events_prefix(s, bn, n, i + 1);
        lemma_window_events_step(s, bn, n, i);
        let a = window_events(s.subrange(0, i), bn, n);
        let b = window_events(s.subrange(0, i + 1), bn, n);
        let c = window_events(s, bn, n);
        assert(b.subrange(0, a.len() as int) =~= a);
        assert(c.subrange(0, a.len() as int) =~= c.subrange(0, b.len() as int).subrange(0, a.len() as int));
    }
}

/// a partially emitted window (i full pieces and k copies of piece i) is a prefix of the whole emission
pub proof fn lemma_window_events_partial(s: Seq<Seq<u8>>, bn: u16, n: nat, i: int, k: nat)
    requires 0 <= i < s.len(), k <= n,
    ensures is_prefix(window_events(s.subrange(0, i), bn, n) + rep(data_ev(bn, i, s[i]), k), window_events(s, bn, n)),
{
    lemma_window_events_step(s, bn, n, i);
    lemma_window_events_prefix(s, bn, n, i + 1);
    let a = window_events(s.subrange(0, i), bn, n);
    let x = data_ev(bn, i, s[i]);
    let b = window_events(s.subrange(0, i + 1), bn, n);
    let c = window_events(s, bn, n);
    assert(b == a + rep(x, n));
    assert((a + rep(x, n)).subrange(0, (a.len() + k) as int) =~= a + rep(x, k));
    assert(c.subrange(0, (a.len() + k) as int) =~= c.subrange(0, b.len() as int).subrange(0, (a.len() + k) as int));
}

pub proof fn lemma_rep_prefix(x: PktV, n: nat, p: Seq<PktV>)
    requires is_prefix(p, rep(x, n)),
    ensures p == rep(x, p.len()), p.len() <= n,
{
    assert(p =~= rep(x, p.len()));
}

pub proof fn lemma_mul_step(i: nat, n: nat)
    ensures (i + 1) * n == i * n + n, 0 * n == 0,
{
    assert((i + 1) * n == i * n + n) by(nonlinear_arith);
}

pub proof fn lemma_wire_succ(bn: u16, i: int)
    requires i >= 0,
    ensures wire(bn + i + 1) == wire(wire(bn + i) + 1), wire(bn + 0) == bn,
{
}

/// number of blocks a transfer of `len` bytes has with block size `cs` (the last one is short, possibly empty)
pub open spec fn nblocks(len: nat, cs: nat) -> nat { len / cs + 1 }

/// the i-th piece (0-based) of `data` cut into pieces of `cs` bytes; block number k carries piece(k-1)
pub open spec fn piece(data: Seq<u8>, cs: nat, i: nat) -> Seq<u8> {
    data.subrange((i * cs) as int, if (i + 1) * cs <= data.len() { ((i + 1) * cs) as int } else { data.len() as int })
}


/// concatenation of a sequence of byte strings
pub open spec fn flatten(s: Seq<Seq<u8>>) -> Seq<u8>
    decreases s.len()
{
    if s.len() == 0 { Seq::<u8>::empty() } else { flatten(s.drop_last()) + s.last() }
}

pub proof fn lemma_flatten_push(s: Seq<Seq<u8>>, x: Seq<u8>)
    ensures flatten(s.push(x)) == flatten(s) + x,
{
    assert(s.push(x).drop_last() =~= s);
}

pub proof fn lemma_flatten_concat(a: Seq<Seq<u8>>, b: Seq<Seq<u8>>)
    ensures flatten(a + b) == flatten(a) + flatten(b),
    decreases b.len(),
{
    if b.len() == 0 {
        assert(a + b =~= a);
        assert(flatten(a) + flatten(b) =~= flatten(a));
    } else {
        lemma_flatten_concat(a, b.drop_last());
        assert((a + b).drop_last() =~= a + b.drop_last());
        assert((a + b).last() == b.last());
        assert(flatten(a) + (flatten(b.drop_last()) + b.last()) =~= (flatten(a) + flatten(b.drop_last())) + b.last());
    }
}

/// if `x` is `base + flatten(s[..i])` followed by a prefix of `s[i]`, it is `base` followed by a prefix of `flatten(s)`
pub proof fn lemma_prefix_step(x: Seq<u8>, base: Seq<u8>, s: Seq<Seq<u8>>, i: int)
    requires 0 <= i < s.len(), appended_prefix(x, base + flatten(s.subrange(0, i)), s[i]),
    ensures appended_prefix(x, base, flatten(s)),
{
    let k = choose|k: int| 0 <= k <= s[i].len() && x == (base + flatten(s.subrange(0, i))) + #[trigger] s[i].subrange(0, k);
    let pre = flatten(s.subrange(0, i));
    lemma_flatten_push(s.subrange(0, i), s[i]);
    assert(s.subrange(0, i).push(s[i]) =~= s.subrange(0, i + 1));
    lemma_flatten_concat(s.subrange(0, i + 1), s.subrange(i + 1, s.len() as int));
    assert(s.subrange(0, i + 1) + s.subrange(i + 1, s.len() as int) =~= s);
    let total = flatten(s);
    assert(total == (pre + s[i]) + flatten(s.subrange(i + 1, s.len() as int)));
    assert(total.subrange(0, pre.len() + k) =~= pre + s[i].subrange(0, k));
    assert(x =~= base + total.subrange(0, pre.len() + k));
}

pub proof fn lemma_step(t: nat, cs: nat)
    requires cs > 0,
    ensures (t + 1) * cs == t * cs + cs, (t * cs + cs) / cs == t + 1, (t * cs) / cs == t,
{
    assert((t + 1) * cs == t * cs + cs) by(nonlinear_arith);
    assert(cs * t == t * cs) by(nonlinear_arith);
    assert(cs * (t + 1) == (t + 1) * cs) by(nonlinear_arith);
    vstd::arithmetic::div_mod::lemma_div_multiples_vanish(t as int, cs as int);
    vstd::arithmetic::div_mod::lemma_div_multiples_vanish((t + 1) as int, cs as int);
}

pub proof fn lemma_div_bounds(len: nat, t: nat, cs: nat)
    requires cs > 0, t * cs <= len, len < t * cs + cs,
    ensures len / cs == t,
{
    vstd::arithmetic::div_mod::lemma_fundamental_div_mod_converse(len as int, cs as int, t as int, (len - t * cs) as int);
}

} // verus!
