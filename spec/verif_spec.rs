//! Ghost vocabulary shared by all contracts (woven into the scratch copy as `mod verif_spec`).
//! Part 1 is TRUSTED (assumed specifications of std); part 2 is pure specification and proved lemmas.
#![allow(missing_docs)]
use vstd::prelude::*;
use std::collections::VecDeque;
use std::fs::File;
use vstd::std_specs::iter::IteratorSpec;
use vstd::std_specs::ops::{AddSpec, SubSpec};
use vstd::std_specs::cmp::PartialOrdSpec;
use vstd::std_specs::fmt::DisplaySpec;
use vstd::std_specs::core::IndexSpec;
use crate::packet::{Packet, TransferOption, OptionType, ErrorCode, Opcode};

verus! {

// =============================================================================================
// PART 1 -- TRUSTED: specifications of std items (assumed, never proved)
// =============================================================================================

#[verifier::external_trait_specification]
pub trait ExError: core::fmt::Debug + core::fmt::Display {
    type ExternalTraitSpecificationFor: core::error::Error;
}

#[verifier::external_type_specification]
#[verifier::external_body]
pub struct ExFile(File);

#[verifier::external_type_specification]
#[verifier::external_body]
pub struct ExIoError(std::io::Error);

#[verifier::external_type_specification]
#[verifier::external_body]
pub struct ExSocketAddr(std::net::SocketAddr);

#[verifier::external_type_specification]
#[verifier::external_body]
pub struct ExUdpSocket(std::net::UdpSocket);

#[verifier::external_type_specification]
#[verifier::external_body]
pub struct ExPathBuf(std::path::PathBuf);

#[verifier::external_type_specification]
#[verifier::external_body]
pub struct ExPath(std::path::Path);

#[verifier::external_type_specification]
#[verifier::external_body]
pub struct ExInstant(std::time::Instant);

#[verifier::external_type_specification]
#[verifier::external_body]
#[verifier::reject_recursive_types(T)]
pub struct ExJoinHandle<T>(std::thread::JoinHandle<T>);

#[verifier::external_type_specification]
#[verifier::external_body]
pub struct ExMetadata(std::fs::Metadata);

#[verifier::external_type_specification]
#[verifier::external_body]
pub struct ExIpAddr(std::net::IpAddr);

#[verifier::external_type_specification]
#[verifier::external_body]
pub struct ExPathDisplay<'a>(std::path::Display<'a>);

#[verifier::external_type_specification]
#[verifier::external_body]
#[verifier::reject_recursive_types(T)]
pub struct ExSender<T>(std::sync::mpsc::Sender<T>);

#[verifier::external_type_specification]
#[verifier::external_body]
#[verifier::reject_recursive_types(T)]
pub struct ExSendError<T>(std::sync::mpsc::SendError<T>);

#[verifier::external_type_specification]
#[verifier::external_body]
#[verifier::reject_recursive_types(T)]
pub struct ExReceiver<T>(std::sync::mpsc::Receiver<T>);

#[verifier::external_type_specification]
#[verifier::external_body]
#[verifier::reject_recursive_types(T)]
pub struct ExStdMutex<T: ?Sized>(std::sync::Mutex<T>);

#[verifier::external_type_specification]
#[verifier::external_body]
pub struct ExAddrParseError(std::net::AddrParseError);

#[verifier::external_type_specification]
#[verifier::external_body]
pub struct ExOsStr(std::ffi::OsStr);

// ---- paths and the file system (uninterpreted: the lexical meaning of std::path is ASSUMED) -------
/// the text of a path
pub uninterp spec fn path_str(p: &std::path::Path) -> Seq<char>;
pub uninterp spec fn pathbuf_str(p: std::path::PathBuf) -> Seq<char>;
/// text of anything that can be viewed as a path (`AsRef<Path>`); given a meaning for PathBuf by the axiom below
pub uninterp spec fn asref_path_str<P>(p: P) -> Seq<char>;
pub broadcast axiom fn axiom_asref_pathbuf(p: std::path::PathBuf)
    ensures #[trigger] asref_path_str::<std::path::PathBuf>(p) == pathbuf_str(p);
/// what `convert_file_path` makes of a request file name (uninterpreted)
pub uninterp spec fn convert_spec(filename: Seq<char>) -> Seq<char>;
/// `base.join(rel)` on path texts
pub uninterp spec fn join_str(base: Seq<char>, rel: Seq<char>) -> Seq<char>;
/// a file exists at this path / its length
pub uninterp spec fn fs_exists(p: Seq<char>) -> bool;
pub uninterp spec fn fs_len(p: Seq<char>) -> u64;
/// SPECIFICATION of lexical confinement (C03): `file` contains no `..` component and `dir` is among its ancestors
pub uninterp spec fn path_confined(file: Seq<char>, dir: Seq<char>) -> bool;

pub assume_specification[ <std::path::PathBuf as core::ops::Deref>::deref ](p: &std::path::PathBuf) -> (r: &std::path::Path)
    ensures path_str(r) == pathbuf_str(*p);

pub assume_specification[ <std::path::PathBuf as Clone>::clone ](p: &std::path::PathBuf) -> (r: std::path::PathBuf)
    ensures r == *p;

pub assume_specification<P: core::convert::AsRef<std::path::Path>>[ std::path::Path::join::<P> ](base: &std::path::Path, rel: P) -> (r: std::path::PathBuf)
    ensures pathbuf_str(r) == join_str(path_str(base), asref_path_str(rel));

pub assume_specification<S: core::convert::AsRef<std::ffi::OsStr> + ?Sized>[ std::path::Path::new::<S> ](s: &S) -> (r: &std::path::Path)
    ensures path_str(r) == asref_path_str::<&S>(s);
pub broadcast axiom fn axiom_asref_string(p: &String)
    ensures #[trigger] asref_path_str::<&String>(p) == p@;

pub uninterp spec fn osstr_str(s: &std::ffi::OsStr) -> Seq<char>;
pub assume_specification[ std::path::Path::as_os_str ](p: &std::path::Path) -> (r: &std::ffi::OsStr)
    ensures osstr_str(r) == path_str(p);
pub assume_specification[ std::ffi::OsStr::is_empty ](s: &std::ffi::OsStr) -> (r: bool)
    ensures r == (osstr_str(s).len() == 0);

/// `process::exit` never returns
pub assume_specification[ std::process::exit ](code: i32) -> !;

/// ASSUMPTION: `String -> PathBuf` conversion keeps the text
pub axiom fn axiom_string_into_pathbuf_obeys()
    ensures <String as vstd::std_specs::convert::IntoSpec<std::path::PathBuf>>::obeys_into_spec(),
            <std::path::PathBuf as vstd::std_specs::convert::FromSpec<String>>::obeys_from_spec();
pub broadcast axiom fn axiom_pathbuf_from_string(s: String)
    ensures pathbuf_str(#[trigger] <std::path::PathBuf as vstd::std_specs::convert::FromSpec<String>>::from_spec(s)) == s@;
pub broadcast axiom fn axiom_string_into_pathbuf(s: String)
    ensures pathbuf_str(#[trigger] <String as vstd::std_specs::convert::IntoSpec<std::path::PathBuf>>::into_spec(s)) == s@;

// ---- worker thread wrappers: opening / creating / removing the transfer file, reporting ---------------------------
/// content of the file found at this path at the moment it is opened
pub uninterp spec fn fs_data(p: Seq<char>) -> Seq<u8>;
pub broadcast axiom fn axiom_asref_pathbuf_ref(p: &std::path::PathBuf)
    ensures #[trigger] asref_path_str::<&std::path::PathBuf>(p) == pathbuf_str(*p);
/// ASSUMPTION: `File::open` starts at offset 0 of the file found at the path; `File::create` yields an empty file at offset 0
pub assume_specification<P: core::convert::AsRef<std::path::Path>>[ std::fs::File::open::<P> ](p: P) -> (r: Result<std::fs::File, std::io::Error>)
    ensures r is Ok ==> file_pos(r->Ok_0) == 0 && file_data(r->Ok_0) == fs_data(asref_path_str(p));
pub assume_specification<P: core::convert::AsRef<std::path::Path>>[ std::fs::File::create::<P> ](p: P) -> (r: Result<std::fs::File, std::io::Error>)
    ensures r is Ok ==> file_pos(r->Ok_0) == 0 && file_data(r->Ok_0) == Seq::<u8>::empty();
pub assume_specification<P: core::convert::AsRef<std::path::Path>>[ std::fs::remove_file::<P> ](p: P) -> (r: Result<(), std::io::Error>);
/// the path has a final component (`Path::file_name` is `Some`): false for `/`, the empty path and paths ending in `..`
pub uninterp spec fn has_file_name(p: Seq<char>) -> bool;
/// ASSUMPTION (lexical, about std::path; sampled by the bounded stand-in bounded_paths): a path without `..` that has a
/// directory with a final component among its ancestors has a final component itself
pub axiom fn axiom_confined_has_name(file: Seq<char>, dir: Seq<char>)
    ensures path_confined(file, dir) && has_file_name(dir) ==> has_file_name(file);
/// the final component of a path (meaningful when `has_file_name`)
pub uninterp spec fn file_name_str(p: Seq<char>) -> Seq<char>;
/// ASSUMPTION (lexical, about std::path): joining a directory with the final component of a path yields a path that has that final component
pub axiom fn axiom_join_file_name(base: Seq<char>, p: Seq<char>)
    ensures has_file_name(p) ==> has_file_name(join_str(base, file_name_str(p)));
pub assume_specification[ std::path::Path::file_name ](p: &std::path::Path) -> (r: Option<&std::ffi::OsStr>)
    ensures r is Some <==> has_file_name(path_str(p)), r is Some ==> osstr_str(r->Some_0) == file_name_str(path_str(p));
pub broadcast axiom fn axiom_asref_osstr(p: &std::ffi::OsStr)
    ensures #[trigger] asref_path_str::<&std::ffi::OsStr>(p) == osstr_str(p);
/// ASSUMPTION (the model of paths as text): every path is valid Unicode
pub assume_specification[ std::path::Path::to_str ](p: &std::path::Path) -> (r: Option<&str>)
    ensures r is Some, r->Some_0@ == path_str(p);
pub assume_specification<'a>[ std::ffi::OsStr::to_string_lossy ](s: &'a std::ffi::OsStr) -> (r: std::borrow::Cow<'a, str>);
pub broadcast axiom fn axiom_display_cow_str(x: &std::borrow::Cow<'_, str>, f: &core::fmt::Formatter<'_>)
    ensures #[trigger] x.fmt_req(f);
pub broadcast axiom fn axiom_display_ref_cow_str(x: &&std::borrow::Cow<'_, str>, f: &core::fmt::Formatter<'_>)
    ensures #[trigger] x.fmt_req(f);
pub broadcast axiom fn axiom_display_ref_socketaddr(x: &&std::net::SocketAddr, f: &core::fmt::Formatter<'_>)
    ensures #[trigger] x.fmt_req(f);
/// ASSUMPTION: `thread::spawn` runs the closure once (its precondition must hold at the spawn); a panic inside stays inside the thread
pub assume_specification<F: FnOnce() -> T + Send + 'static, T: Send + 'static>[ std::thread::spawn::<F, T> ](f: F) -> (r: std::thread::JoinHandle<T>)
    requires f.requires(());
// ---- C14: the client side of one transfer -----------------------------------------------------------------------------
/// RELY (C14 is about the bundled pair): the reply comes from the bundled server, whose OACK values are honourable - this is
/// what the server's own contracts prove (C09, `server.parse_options`); nothing is assumed about other replies
pub axiom fn axiom_peer_is_the_bundled_server(reply: Option<(PktV, std::net::SocketAddr)>)
    ensures reply matches Some((PktV::Oack(o), _)) ==> opts_valid(o);

/// the four options the client asks for
pub open spec fn client_options(blk: usize, ws: u16, tmo: std::time::Duration, tsize: usize) -> Seq<TransferOption> {
    seq![TransferOption { option: OptionType::BlockSize, value: blk }, TransferOption { option: OptionType::Windowsize, value: ws as usize },
         TransferOption { option: OptionType::Timeout, value: (dur_nanos(tmo) / 1000000000) as usize }, TransferOption { option: OptionType::TransferSize, value: tsize }]
}
/// SPECIFICATION (C14, client side): what one `upload` / `download` does, as a relation between the effects `evs` (datagrams sent from
/// the request socket, worker started), the reply `cur` it received and its result:
///  * the first datagram is the request for `name` with mode octet and exactly the four options (blksize, windowsize, timeout, tsize) to `remote`;
///  * OACK: a worker is started with the OACK's last blksize / windowsize (own values where the OACK is silent), one copy per packet, on `path`
///    (a download acknowledges the OACK with ACK 0 first); plain ACK (upload only): a worker with the RFC 1350 defaults 512 / 1;
///  * ERROR, anything else, or no reply: `Err`, and no worker is ever started (no file is created or touched).
pub open spec fn client_exchange(evs: Seq<SEv>, cur: Option<(PktV, std::net::SocketAddr)>, kind: XferKind, ok: bool,
                                 remote: std::net::SocketAddr, name: Seq<char>, blk: usize, ws: u16, tmo: std::time::Duration, path: Seq<char>, clean: bool) -> bool {
    let is_request = |p: PktV| match (kind, p) {
        (XferKind::Send, PktV::Wrq { filename, mode, options }) => filename == name && mode == "octet"@ && exists|sz: usize| options == client_options(blk, ws, tmo, sz),
        (XferKind::Receive, PktV::Rrq { filename, mode, options }) => filename == name && mode == "octet"@ && options == client_options(blk, ws, tmo, 0),
        _ => false,
    };
    let no_worker = forall|i: int| 0 <= i < evs.len() ==> !(#[trigger] evs[i] is Spawned);
    (evs.len() == 0 && !ok)     // failed before anything was sent (socket, file name, file size)
    || (evs.len() >= 1 && (evs[0] matches SEv::SentTo { pkt, to } && is_request(pkt) && to == remote) && (match cur {
        Some((PktV::Oack(o), from)) => {
            let b = opt_or(opt_last(o, OptionType::BlockSize), blk);
            let w = match opt_last(o, OptionType::Windowsize) { Some(v) => v as u16, None => ws };
            (!ok && no_worker) || (match kind {
                XferKind::Send => evs.len() == 2 && (evs[1] matches SEv::Spawned { kind: k, path: p, blk: b2, ws: w2, rep, check, clean: c, .. }
                    && k == kind && p == path && b2 == b && w2 == w && rep == 1 && !check && c == clean),
                XferKind::Receive => evs.len() == 3 && evs[1] == (SEv::SentTo { pkt: PktV::Ack(0), to: from })
                    && (evs[2] matches SEv::Spawned { kind: k, path: p, blk: b2, ws: w2, rep, check, clean: c, .. }
                        && k == kind && p == path && b2 == b && w2 == w && rep == 1 && !check && c == clean),
            })
        },
        Some((PktV::Ack(_), _)) => (!ok && no_worker) || (kind is Send && evs.len() == 2 && (evs[1] matches SEv::Spawned { kind: k, path: p, blk: b2, ws: w2, rep, check, clean: c, .. }
                    && k == kind && p == path && b2 == 512 && w2 == 1 && rep == 1 && !check && c == clean)),
        _ => !ok && evs.len() == 1,
    }))
}

/// ASSUMPTION: `&str -> String` conversion (`"octet".into()`) keeps the text
pub axiom fn axiom_str_into_string_obeys()
    ensures <&'static str as vstd::std_specs::convert::IntoSpec<String>>::obeys_into_spec();
pub broadcast axiom fn axiom_str_into_string(s: &'static str)
    ensures (#[trigger] <&'static str as vstd::std_specs::convert::IntoSpec<String>>::into_spec(s))@ == s@;

#[verifier::external_type_specification]
#[verifier::external_body]
pub struct ExOsString(std::ffi::OsString);
pub uninterp spec fn osstring_str(s: std::ffi::OsString) -> Seq<char>;
pub assume_specification[ std::path::PathBuf::into_os_string ](p: std::path::PathBuf) -> (r: std::ffi::OsString)
    ensures osstring_str(r) == pathbuf_str(p);
/// ASSUMPTION (the model of paths as text): every OS string is valid Unicode
pub assume_specification[ std::ffi::OsString::into_string ](s: std::ffi::OsString) -> (r: Result<String, std::ffi::OsString>)
    ensures r is Ok, r->Ok_0@ == osstring_str(s);
pub assume_specification<T, E, F: FnOnce(E) -> T>[ Result::<T, E>::unwrap_or_else::<F> ](r: Result<T, E>, f: F) -> (res: T)
    requires r is Err ==> f.requires((r->Err_0,)),
    ensures r is Ok ==> res == r->Ok_0, r is Err ==> f.ensures((r->Err_0,), res);

/// N7: `Ipv4Addr::UNSPECIFIED` / `Ipv6Addr::UNSPECIFIED` are read through these (the bodies are exactly those constants)
#[verifier::external_type_specification]
#[verifier::external_body]
pub struct ExIpv4Addr(std::net::Ipv4Addr);
#[verifier::external_type_specification]
#[verifier::external_body]
pub struct ExIpv6Addr(std::net::Ipv6Addr);
#[verifier::external_body]
pub fn ipv4_unspecified() -> std::net::Ipv4Addr { std::net::Ipv4Addr::UNSPECIFIED }
#[verifier::external_body]
pub fn ipv6_unspecified() -> std::net::Ipv6Addr { std::net::Ipv6Addr::UNSPECIFIED }
pub assume_specification[ std::net::SocketAddr::is_ipv4 ](a: &std::net::SocketAddr) -> bool;
pub assume_specification<A: std::net::ToSocketAddrs>[ std::net::UdpSocket::connect::<A> ](s: &std::net::UdpSocket, a: A) -> (r: Result<(), std::io::Error>);
pub assume_specification[ std::ffi::OsStr::to_str ](s: &std::ffi::OsStr) -> (r: Option<&str>)
    ensures r is Some, r->Some_0@ == osstr_str(s);
pub assume_specification[ std::fs::File::metadata ](f: &std::fs::File) -> (r: Result<std::fs::Metadata, std::io::Error>);
pub assume_specification[ std::time::Duration::as_secs ](d: &std::time::Duration) -> (r: u64)
    ensures r as nat == dur_nanos(*d) / 1000000000;
/// N5: the crate's `let _ = handle.join();` statements call this (the body is exactly that statement)
#[verifier::external_body]
pub fn join_and_ignore<T>(h: std::thread::JoinHandle<T>) { let _ = h.join(); }
/// ghost log of files removed by a worker thread
pub tracked struct FsLog { pub ghost removed: Seq<Seq<char>> }

pub assume_specification[ std::path::Path::to_path_buf ](p: &std::path::Path) -> (r: std::path::PathBuf)
    ensures pathbuf_str(r) == path_str(p);

pub assume_specification[ std::path::Path::exists ](p: &std::path::Path) -> (r: bool)
    ensures r == fs_exists(path_str(p));

/// ASSUMPTION: the file system does not change while one request is handled: `metadata().len()` is a function of the path
pub uninterp spec fn meta_len(m: std::fs::Metadata) -> u64;
pub assume_specification[ std::path::Path::metadata ](p: &std::path::Path) -> (r: Result<std::fs::Metadata, std::io::Error>)
    ensures r is Ok ==> meta_len(r->Ok_0) == fs_len(path_str(p));

pub assume_specification[ std::fs::Metadata::len ](m: &std::fs::Metadata) -> (r: u64)
    ensures r == meta_len(*m);

pub assume_specification<'a>[ std::path::Path::display ](p: &'a std::path::Path) -> (r: std::path::Display<'a>);

/// ASSUMPTION: the `Display` implementations of these std types have no precondition (do not panic)
pub broadcast axiom fn axiom_display_socketaddr(x: &std::net::SocketAddr, f: &core::fmt::Formatter<'_>)
    ensures #[trigger] x.fmt_req(f);
pub broadcast axiom fn axiom_display_path(x: &std::path::Display<'_>, f: &core::fmt::Formatter<'_>)
    ensures #[trigger] x.fmt_req(f);
pub broadcast axiom fn axiom_display_boxed_error(x: &Box<dyn std::error::Error>, f: &core::fmt::Formatter<'_>)
    ensures #[trigger] x.fmt_req(f);

/// ASSUMPTION: `SocketAddr` hashes and compares consistently (needed for vstd's HashMap specification)
pub broadcast axiom fn axiom_socketaddr_key_model()
    ensures #[trigger] vstd::std_specs::hash::obeys_key_model::<std::net::SocketAddr>();

/// ASSUMPTION: indexing a HashMap with a key it contains does not panic
pub broadcast axiom fn axiom_hashmap_index<V>(m: &std::collections::HashMap<std::net::SocketAddr, V>, k: &std::net::SocketAddr)
    ensures m@.contains_key(*k) ==> #[trigger] m.index_req(&k);

/// ASSUMPTION: `max` on integers.  Stated for all `Ord` types through an uninterpreted function that the
/// axiom below defines for `usize` (the only instantiation in the crate).
pub uninterp spec fn max_spec<T>(a: T, b: T) -> T;
pub broadcast axiom fn axiom_max_usize(a: usize, b: usize)
    ensures #[trigger] max_spec::<usize>(a, b) == (if a >= b { a } else { b });
pub assume_specification<T: core::cmp::Ord + core::marker::Destruct>[ core::cmp::max ](a: T, b: T) -> (r: T)
    ensures r == max_spec(a, b);

pub assume_specification[ std::time::Duration::from_secs ](s: u64) -> (d: std::time::Duration)
    ensures dur_nanos(d) == s * 1000000000;

/// ASSUMPTION: binding a socket and building an address from (ip, port) have no precondition (I/O errors are an `Err`)
pub assume_specification<A: std::net::ToSocketAddrs>[ std::net::UdpSocket::bind::<A> ](a: A) -> (r: Result<std::net::UdpSocket, std::io::Error>);
pub assume_specification<I: Into<std::net::IpAddr>>[ <std::net::SocketAddr as From<(I, u16)>>::from ](a: (I, u16)) -> (r: std::net::SocketAddr);
pub assume_specification[ std::net::UdpSocket::try_clone ](s: &std::net::UdpSocket) -> (r: Result<std::net::UdpSocket, std::io::Error>);
pub assume_specification[ std::net::SocketAddr::ip ](a: &std::net::SocketAddr) -> (r: std::net::IpAddr);
pub assume_specification[ std::net::UdpSocket::set_write_timeout ](s: &std::net::UdpSocket, d: Option<std::time::Duration>) -> (r: Result<(), std::io::Error>);
pub assume_specification[ std::net::UdpSocket::set_read_timeout ](s: &std::net::UdpSocket, d: Option<std::time::Duration>) -> (r: Result<(), std::io::Error>);
pub assume_specification[ std::net::UdpSocket::peer_addr ](s: &std::net::UdpSocket) -> (r: Result<std::net::SocketAddr, std::io::Error>);
/// ASSUMPTION: `UdpSocket::send` / `send_to` have no precondition (errors are an `Err`)
pub assume_specification[ std::net::UdpSocket::send ](s: &std::net::UdpSocket, buf: &[u8]) -> (r: Result<usize, std::io::Error>);
pub assume_specification<A: std::net::ToSocketAddrs>[ std::net::UdpSocket::send_to::<A> ](s: &std::net::UdpSocket, buf: &[u8], a: A) -> (r: Result<usize, std::io::Error>);
/// ASSUMPTION: `UdpSocket::recv` / `recv_from` write one datagram (truncated to the buffer) and report its length
pub assume_specification[ std::net::UdpSocket::recv ](s: &std::net::UdpSocket, buf: &mut [u8]) -> (r: Result<usize, std::io::Error>)
    ensures final(buf)@.len() == old(buf)@.len(), r is Ok ==> r->Ok_0 <= old(buf)@.len();
pub assume_specification[ std::net::UdpSocket::recv_from ](s: &std::net::UdpSocket, buf: &mut [u8]) -> (r: Result<(usize, std::net::SocketAddr), std::io::Error>)
    ensures final(buf)@.len() == old(buf)@.len(), r is Ok ==> (r->Ok_0).0 <= old(buf)@.len();
pub assume_specification[ std::net::UdpSocket::local_addr ](s: &std::net::UdpSocket) -> (r: Result<std::net::SocketAddr, std::io::Error>);

pub assume_specification<T>[ std::sync::mpsc::Sender::<T>::send ](s: &std::sync::mpsc::Sender<T>, t: T) -> (r: Result<(), std::sync::mpsc::SendError<T>>);

/// File model.  `file_data` is the content, `file_pos` the cursor of this handle.
pub uninterp spec fn file_data(f: File) -> Seq<u8>;
pub uninterp spec fn file_pos(f: File) -> nat;

/// ASSUMPTION "regular files do full reads": `read` returns min(buf.len, remaining) bytes taken at
/// the cursor and advances the cursor; the content is unchanged.  On error nothing is known about
/// the cursor, the content is unchanged.
pub assume_specification[ <File as std::io::Read>::read ](f: &mut File, buf: &mut [u8]) -> (r: Result<usize, std::io::Error>)
    ensures
        file_data(*final(f)) == file_data(*old(f)),
        final(buf)@.len() == old(buf)@.len(),
        r matches Ok(n) ==> {
            &&& file_pos(*old(f)) <= file_data(*old(f)).len()
            &&& n as nat == (if old(buf)@.len() <= file_data(*old(f)).len() - file_pos(*old(f)) { old(buf)@.len() as nat } else { (file_data(*old(f)).len() - file_pos(*old(f))) as nat })
            &&& file_pos(*final(f)) == file_pos(*old(f)) + n
            &&& final(buf)@.subrange(0, n as int) == file_data(*old(f)).subrange(file_pos(*old(f)) as int, file_pos(*old(f)) + n)
        };

/// project-local wrapper spec for `Write::write_all` on a File is given where it is used
/// (assume_specification of provided trait methods is rejected by Verus).

pub assume_specification<T, A: core::alloc::Allocator>[ VecDeque::<T, A>::is_empty ](v: &VecDeque<T, A>) -> (r: bool)
    ensures r == (v@.len() == 0);


#[verifier::external_type_specification]
#[verifier::external_body]
#[verifier::reject_recursive_types(T)]
#[verifier::reject_recursive_types(A)]
pub struct ExVecDequeDrain<'a, T: 'a, A: core::alloc::Allocator>(std::collections::vec_deque::Drain<'a, T, A>);

/// bounds denoted by a `RangeBounds` value (only `Range<usize>` is given a meaning, by the axiom below)
pub uninterp spec fn rb_start<R>(r: R) -> int;
pub uninterp spec fn rb_end<R>(r: R) -> int;
pub axiom fn axiom_range_bounds(r: core::ops::Range<usize>)
    ensures #![trigger rb_start(r)] #![trigger rb_end(r)] rb_start(r) == r.start, rb_end(r) == r.end;
/// the other range forms denote the same bounds relative to a sequence of length `len` (rb_end is only
/// meaningful for forms with an upper bound; `drain` on an open-ended form is given by the `*_to_len` axioms)
pub broadcast axiom fn axiom_range_bounds_auto(r: core::ops::Range<usize>)
    ensures #![trigger rb_start(r)] #![trigger rb_end(r)] rb_start(r) == r.start, rb_end(r) == r.end;
pub broadcast axiom fn axiom_rangeto_bounds(r: core::ops::RangeTo<usize>)
    ensures #![trigger rb_start(r)] #![trigger rb_end(r)] rb_start(r) == 0, rb_end(r) == r.end;
pub broadcast axiom fn axiom_rangetoinclusive_bounds(r: core::ops::RangeToInclusive<usize>)
    ensures #![trigger rb_start(r)] #![trigger rb_end(r)] rb_start(r) == 0, rb_end(r) == r.end + 1;

/// ASSUMPTION: `drain(a..b)` followed by dropping the iterator removes exactly the elements a..b
/// (the removal is complete when the borrow ends).
pub assume_specification<T, A: core::alloc::Allocator, R: core::ops::RangeBounds<usize>>[ VecDeque::<T, A>::drain::<R> ](v: &mut VecDeque<T, A>, range: R) -> (r: std::collections::vec_deque::Drain<'_, T, A>)
    requires 0 <= rb_start(range) <= rb_end(range) <= old(v)@.len(),
    ensures final(v)@ == old(v)@.subrange(0, rb_start(range)) + old(v)@.subrange(rb_end(range), old(v)@.len() as int);

// ---- clock model (monotonic clock; all relations uninterpreted) -----------------------------------
/// length of a duration in nanoseconds
pub uninterp spec fn dur_nanos(d: std::time::Duration) -> nat;
/// `t` was returned by a reading of the clock
pub uninterp spec fn is_clock_reading(t: std::time::Instant) -> bool;
/// `d` is a value `t.elapsed()` returned
pub uninterp spec fn elapsed_of(t: std::time::Instant, d: std::time::Duration) -> bool;
pub uninterp spec fn instant_sub(t: std::time::Instant, d: std::time::Duration) -> std::time::Instant;

pub assume_specification[ std::time::Instant::now ]() -> (t: std::time::Instant)
    ensures is_clock_reading(t);

/// ASSUMPTION (monotonic clock): what `elapsed` returns for an instant that lies `d` before some clock
/// reading is at least `d`.
pub assume_specification[ std::time::Instant::elapsed ](t: &std::time::Instant) -> (e: std::time::Duration)
    ensures
        elapsed_of(*t, e),
        forall|b: std::time::Instant, d: std::time::Duration| is_clock_reading(b) && *t == #[trigger] instant_sub(b, d) ==> dur_nanos(e) >= dur_nanos(d);

pub open spec fn dur_max() -> nat { 18446744073709551615 * 1000000000 + 999999999 }

/// ASSUMPTION: the std operators on Duration / Instant behave as the `*_spec` functions below say
pub axiom fn axiom_time_ops_obey()
    ensures
        <std::time::Duration as vstd::std_specs::ops::AddSpec<std::time::Duration>>::obeys_add_spec(),
        <std::time::Instant as vstd::std_specs::ops::SubSpec<std::time::Duration>>::obeys_sub_spec(),
        <std::time::Duration as vstd::std_specs::cmp::PartialOrdSpec<std::time::Duration>>::obeys_partial_cmp_spec();

pub open spec fn time_ops_obey() -> bool {
    &&& <std::time::Duration as vstd::std_specs::ops::AddSpec<std::time::Duration>>::obeys_add_spec()
    &&& <std::time::Instant as vstd::std_specs::ops::SubSpec<std::time::Duration>>::obeys_sub_spec()
    &&& <std::time::Duration as vstd::std_specs::cmp::PartialOrdSpec<std::time::Duration>>::obeys_partial_cmp_spec()
}

/// ASSUMPTION: `Duration + Duration` panics only on overflow of the representable range and adds the lengths.
pub broadcast axiom fn axiom_duration_add(a: std::time::Duration, b: std::time::Duration)
    ensures
        #![trigger a.add_req(b)] #![trigger a.add_spec(b)]
        (dur_nanos(a) + dur_nanos(b) <= dur_max()) ==> a.add_req(b),
        <std::time::Duration as vstd::std_specs::ops::AddSpec<std::time::Duration>>::obeys_add_spec(),
        dur_nanos(a.add_spec(b)) == dur_nanos(a) + dur_nanos(b);

/// ASSUMPTION (platform): subtracting up to 2^40 seconds from a clock reading does not leave the
/// representable range of `Instant` (true on Linux, where Instant is a signed timespec).
pub broadcast axiom fn axiom_instant_sub(t: std::time::Instant, d: std::time::Duration)
    ensures
        #![trigger t.sub_req(d)] #![trigger t.sub_spec(d)]
        (is_clock_reading(t) && dur_nanos(d) <= 0x100_0000_0000 * 1000000000) ==> t.sub_req(d),
        <std::time::Instant as vstd::std_specs::ops::SubSpec<std::time::Duration>>::obeys_sub_spec(),
        t.sub_spec(d) == instant_sub(t, d);

/// ASSUMPTION: `Duration` is ordered by its length.
pub broadcast axiom fn axiom_duration_ord(a: std::time::Duration, b: std::time::Duration)
    ensures
        <std::time::Duration as vstd::std_specs::cmp::PartialOrdSpec<std::time::Duration>>::obeys_partial_cmp_spec(),
        #[trigger] a.partial_cmp_spec(&b) == Some(
            if dur_nanos(a) < dur_nanos(b) { core::cmp::Ordering::Less }
            else if dur_nanos(a) == dur_nanos(b) { core::cmp::Ordering::Equal }
            else { core::cmp::Ordering::Greater });

/// ASSUMPTION: `to_vec` copies the slice.  Stated as equality of views, which is exact for `Copy`
/// element types; the crate calls it only on `[u8]` and `[TransferOption]` (both `Copy`).
pub assume_specification<T: Clone>[ <[T]>::to_vec ](s: &[T]) -> (r: Vec<T>)
    ensures r@ == s@;

#[verifier::external_type_specification]
#[verifier::external_body]
pub struct ExParseIntError(core::num::ParseIntError);

#[verifier::external_trait_specification]
pub trait ExFromStr: Sized {
    type ExternalTraitSpecificationFor: core::str::FromStr;
    type Err;
    fn from_str(s: &str) -> Result<Self, Self::Err>;
}

/// ASSUMPTION: a `str` value is determined by its characters (Verus compares `&str` patterns by value, not by view)
pub axiom fn axiom_str_ext(a: &str, b: &str)
    ensures a@ == b@ ==> a == b;

/// lower-casing of a string (uninterpreted except for the axioms about the four option names, see packet.contract)
pub uninterp spec fn str_lower(s: Seq<char>) -> Seq<char>;
pub assume_specification[ str::to_lowercase ](s: &str) -> (r: String)
    ensures r@ == str_lower(s@);

/// what `s.parse::<F>()` yields (`None` = error); uninterpreted
pub uninterp spec fn parse_spec<F>(s: Seq<char>) -> Option<F>;
pub assume_specification<F: core::str::FromStr>[ str::parse::<F> ](s: &str) -> (r: Result<F, <F as core::str::FromStr>::Err>)
    ensures
        r is Ok <==> parse_spec::<F>(s@) is Some,
        r is Ok ==> Some(r->Ok_0) == parse_spec::<F>(s@);

/// `[a, b, ..].concat()`: generic over element and output type, so the result is tied to the input by an uninterpreted
/// relation that the axioms below define for the instantiations the crate uses (slices and vectors of bytes)
#[verifier::external_trait_specification]
pub trait ExConcat<Item: ?Sized> {
    type ExternalTraitSpecificationFor: std::slice::Concat<Item>;
    type Output;
}
pub uninterp spec fn concat_rel<T, Item: ?Sized, O>(s: Seq<T>, out: O) -> bool;
pub assume_specification<T, Item: ?Sized>[ <[T]>::concat::<Item> ](s: &[T]) -> (r: <[T] as std::slice::Concat<Item>>::Output)
    where [T]: std::slice::Concat<Item>
    ensures concat_rel::<T, Item, <[T] as std::slice::Concat<Item>>::Output>(s@, r);
/// ASSUMPTION: concatenation of byte slices / byte vectors is the concatenation of their contents
pub broadcast axiom fn axiom_concat_slices(s: Seq<&[u8]>, out: Vec<u8>)
    requires #[trigger] concat_rel::<&[u8], u8, Vec<u8>>(s, out),
    ensures out@ == flatten(s.map_values(|x: &[u8]| x@));
pub broadcast axiom fn axiom_concat_vecs(s: Seq<Vec<u8>>, out: Vec<u8>)
    requires #[trigger] concat_rel::<Vec<u8>, u8, Vec<u8>>(s, out),
    ensures out@ == flatten(s.map_values(|x: Vec<u8>| x@));
pub broadcast axiom fn axiom_concat_arrays2(s: Seq<[u8; 2]>, out: Vec<u8>)
    requires #[trigger] concat_rel::<[u8; 2], u8, Vec<u8>>(s, out),
    ensures out@ == flatten(s.map_values(|x: [u8; 2]| x@));

/// ASSUMPTION (Rust language guarantee): no slice is longer than isize::MAX elements
pub broadcast axiom fn axiom_slice_len_isize(s: &[u8])
    ensures #[trigger] s@.len() <= isize::MAX;

/// ASSUMPTION: `usize::to_string` is the decimal text
/// (vstd's `ToString::to_string` contract is `to_string_from_display_ensures`, uninterpreted for usize)
pub broadcast axiom fn axiom_usize_to_string(n: &usize, s: String)
    ensures #[trigger] vstd::string::to_string_from_display_ensures::<usize>(n, s) ==> s@ == dec_str(*n);

/// ASSUMPTION: `String::as_bytes` / `str::as_bytes` is the UTF-8 encoding
pub assume_specification[ String::as_bytes ](s: &String) -> (r: &[u8])
    ensures r@ == utf8_encode(s@);

/// std functions that PANIC on a bad argument get their panic condition as a precondition, so that code which starts
/// using them is checked (a small catalogue; anything not listed makes the run inconclusive, never an alarm)
pub uninterp spec fn is_char_boundary_spec(s: Seq<char>, byte_index: usize) -> bool;
pub assume_specification[ String::truncate ](s: &mut String, new_len: usize)
    requires is_char_boundary_spec(old(s)@, new_len);
pub assume_specification[ String::remove ](s: &mut String, idx: usize) -> (c: char)
    requires is_char_boundary_spec(old(s)@, idx) && idx < utf8_encode(old(s)@).len();
pub assume_specification[ String::split_off ](s: &mut String, at: usize) -> (r: String)
    requires is_char_boundary_spec(old(s)@, at);
pub assume_specification[ String::insert ](s: &mut String, idx: usize, ch: char)
    requires is_char_boundary_spec(old(s)@, idx);

/// ASSUMPTION: printing does not panic (it can, on a closed stdout; not modelled)
pub assume_specification[ std::io::_print ](_0: core::fmt::Arguments<'_>);
pub assume_specification[ std::io::_eprint ](_0: core::fmt::Arguments<'_>);

pub assume_specification[ std::thread::sleep ](_0: std::time::Duration);

pub assume_specification<T>[ std::mem::drop ](_0: T) where T: std::marker::Destruct;

/// `std::io::Write`: only `write_all` is given a meaning, through the uninterpreted relation
/// `write_all_post`, which the axiom below defines for `File` (append; on error a prefix was appended).
pub uninterp spec fn write_all_post<W: ?Sized>(pre: &W, post: &W, buf: Seq<u8>, ok: bool) -> bool;

#[verifier::external_trait_specification]
pub trait ExWrite {
    type ExternalTraitSpecificationFor: std::io::Write;
    fn write(&mut self, buf: &[u8]) -> std::io::Result<usize>;
    fn flush(&mut self) -> std::io::Result<()>;
    fn write_all(&mut self, buf: &[u8]) -> (r: std::io::Result<()>)
        ensures write_all_post(&*old(self), &*final(self), buf@, r is Ok);
}

/// `post` is `pre` followed by a prefix of `total`
pub open spec fn appended_prefix(post: Seq<u8>, pre: Seq<u8>, total: Seq<u8>) -> bool {
    exists|k: int| 0 <= k <= total.len() && post == pre + #[trigger] total.subrange(0, k)
}

/// ASSUMPTION: `write_all` on a file appends the bytes; on error a prefix of them was appended.
pub broadcast axiom fn axiom_file_write_all(pre: File, post: File, buf: Seq<u8>, ok: bool)
    requires #[trigger] write_all_post(&pre, &post, buf, ok),
    ensures
        ok ==> file_data(post) == file_data(pre) + buf,
        !ok ==> appended_prefix(file_data(post), file_data(pre), buf);

/// ASSUMPTION: iterating `&mut [T]` yields one mutable reference per element, in order (mirrors vstd's `iter_mut()`)
pub assume_specification<'a, T>[ <&'a mut [T] as core::iter::IntoIterator>::into_iter ](s: &'a mut [T]) -> (r: core::slice::IterMut<'a, T>)
    ensures
        r.obeys_prophetic_iter_laws(),
        r.decrease() is Some,
        r.remaining().len() == old(s)@.len(),
        final(s)@.len() == old(s)@.len(),
        forall|i: int| 0 <= i < old(s)@.len() ==> *(#[trigger] r.remaining()[i]) == old(s)@[i],
        forall|i: int| #![trigger final(s)@[i]] #![trigger r.remaining()[i]] 0 <= i < old(s)@.len() ==> *final(r.remaining()[i]) == final(s)@[i];

/// ASSUMPTION: iterating `&VecDeque` yields references to its elements in order (mirrors vstd's spec of `iter()`).
pub assume_specification<'a, T, A: core::alloc::Allocator>[ <&'a VecDeque<T, A> as core::iter::IntoIterator>::into_iter ](v: &'a VecDeque<T, A>) -> (r: std::collections::vec_deque::Iter<'a, T>)
    ensures
        r.remaining() == v@.map_values(|x: T| &x),
        r.obeys_prophetic_iter_laws(),
        r.decrease() is Some;

// =============================================================================================
// PART 2 -- pure specification vocabulary and proved lemmas
// =============================================================================================

// ---- packets and traces -----------------------------------------------------------------------

/// UTF-8 decoding of a byte string (`None` = invalid UTF-8) and encoding of a string: vstd's definitions
pub open spec fn utf8_decode(b: Seq<u8>) -> Option<Seq<char>> {
    if vstd::utf8::valid_utf8(b) { Some(vstd::utf8::decode_utf8(b)) } else { None }
}
pub open spec fn utf8_encode(s: Seq<char>) -> Seq<u8> { vstd::utf8::encode_utf8(s) }

/// RFC 2348/2349/7440 option names
pub open spec fn option_name(o: OptionType) -> Seq<char> {
    match o {
        OptionType::BlockSize => "blksize"@,
        OptionType::TransferSize => "tsize"@,
        OptionType::Timeout => "timeout"@,
        OptionType::Windowsize => "windowsize"@,
    }
}
pub open spec fn option_of_name(s: Seq<char>) -> Result<OptionType, &'static str> {
    if s == "blksize"@ { Ok(OptionType::BlockSize) }
    else if s == "tsize"@ { Ok(OptionType::TransferSize) }
    else if s == "timeout"@ { Ok(OptionType::Timeout) }
    else if s == "windowsize"@ { Ok(OptionType::Windowsize) }
    else { Err("Invalid option type") }
}

/// what an `Ok((s, i))` of `Convert::to_string(buf, start)` means: i is the first NUL at or after start,
/// and s is the UTF-8 decoding of the bytes in between
pub open spec fn to_string_ok(buf: Seq<u8>, start: int, s: Seq<char>, i: int) -> bool {
    &&& start <= i < buf.len()
    &&& buf[i] == 0
    &&& forall|j: int| start <= j < i ==> buf[j] != 0
    &&& utf8_decode(buf.subrange(start, i)) == Some(s)
}

/// no NUL-terminated valid UTF-8 string starts at `start`
pub open spec fn no_string_at(buf: Seq<u8>, start: int) -> bool {
    forall|s: Seq<char>, i: int| !#[trigger] to_string_ok(buf, start, s, i)
}
/// what an `Err` of `Convert::to_string` means
pub open spec fn to_string_err(buf: Seq<u8>, start: int) -> bool {
    (forall|j: int| start <= j < buf.len() ==> buf[j] != 0)
    || (exists|i: int| start <= i < buf.len() && buf[i] == 0 && (forall|j: int| start <= j < i ==> buf[j] != 0)
        && utf8_decode(buf.subrange(start, i)) is None)
}
pub proof fn lemma_to_string_err(buf: Seq<u8>, start: int)
    requires to_string_err(buf, start),
    ensures no_string_at(buf, start),
{
    assert forall|s: Seq<char>, i: int| !#[trigger] to_string_ok(buf, start, s, i) by {
        if to_string_ok(buf, start, s, i) {
            if forall|j: int| start <= j < buf.len() ==> buf[j] != 0 {
                assert(buf[i] != 0);
            } else {
                let i0 = choose|i0: int| start <= i0 < buf.len() && buf[i0] == 0 && (forall|j: int| start <= j < i0 ==> buf[j] != 0)
                    && utf8_decode(buf.subrange(start, i0)) is None;
                if i < i0 { assert(buf[i] != 0); }
                if i0 < i { assert(buf[i0] != 0); }
            }
        }
    }
}

/// big-endian 16-bit number at offset `at`
pub open spec fn be16(buf: Seq<u8>, at: int) -> u16 { (buf[at] as u16 * 256 + buf[at + 1] as u16) as u16 }

/// the big-endian number read from a sub-slice is the one read from the datagram at the sub-slice's offset
pub broadcast proof fn lemma_be16_subrange(buf: Seq<u8>, a: int, b: int)
    requires 0 <= a, a + 2 <= b <= buf.len(),
    ensures #[trigger] be16(buf.subrange(a, b), 0) == be16(buf, a),
{
}

/// the first NUL at or after `start` is unique, and so is the decoded string
pub proof fn lemma_to_string_unique(buf: Seq<u8>, start: int, s1: Seq<char>, i1: int, s2: Seq<char>, i2: int)
    requires to_string_ok(buf, start, s1, i1), to_string_ok(buf, start, s2, i2),
    ensures i1 == i2, s1 == s2,
{
    if i1 < i2 { assert(buf[i1] != 0); }
    if i2 < i1 { assert(buf[i2] != 0); }
}

/// SPECIFICATION (C10, C11, C09): the option part of an RRQ / WRQ / OACK, starting behind the NUL at index `z`:
/// pairs of NUL-terminated strings up to the end of the datagram; a pair whose lower-cased name is one of the four
/// option names contributes that option with its decimal value (which must parse), any other pair is skipped
pub open spec fn opts_decode(buf: Seq<u8>, z: int, opts: Seq<TransferOption>) -> bool
    decreases buf.len() - z
{
    if z >= buf.len() - 1 || z < 0 {
        opts.len() == 0
    } else {
        exists|name: Seq<char>, z1: int, val: Seq<char>, z2: int|
            #[trigger] to_string_ok(buf, z + 1, name, z1) && #[trigger] to_string_ok(buf, z1 + 1, val, z2)
            && (match option_of_name(str_lower(name)) {
                Ok(t) => parse_spec::<usize>(val) is Some && opts.len() > 0
                    && opts[0] == (TransferOption { option: t, value: parse_spec::<usize>(val)->Some_0 })
                    && opts_decode(buf, z2, opts.skip(1)),
                Err(_) => opts_decode(buf, z2, opts),
            })
    }
}

/// one iteration of the option loop of parse_rq / parse_oack keeps "everything decoded so far, followed by whatever
/// the rest decodes to, is what the whole option part decodes to"
pub proof fn lemma_opts_step(buf: Seq<u8>, z: int, name: Seq<char>, z1: int, val: Seq<char>, z2: int,
                             opts0: Seq<TransferOption>, opts1: Seq<TransferOption>, z_start: int)
    requires
        0 <= z < buf.len() - 1,
        to_string_ok(buf, z + 1, name, z1), to_string_ok(buf, z1 + 1, val, z2),
        forall|rest: Seq<TransferOption>| #[trigger] opts_decode(buf, z, rest) ==> opts_decode(buf, z_start, opts0 + rest),
        match option_of_name(str_lower(name)) {
            Ok(t) => parse_spec::<usize>(val) is Some && opts1 == opts0.push(TransferOption { option: t, value: parse_spec::<usize>(val)->Some_0 }),
            Err(_) => opts1 == opts0,
        },
    ensures
        forall|rest: Seq<TransferOption>| #[trigger] opts_decode(buf, z2, rest) ==> opts_decode(buf, z_start, opts1 + rest),
{
    assert forall|rest: Seq<TransferOption>| #[trigger] opts_decode(buf, z2, rest) implies opts_decode(buf, z_start, opts1 + rest) by {
        match option_of_name(str_lower(name)) {
            Ok(t) => {
                let o = TransferOption { option: t, value: parse_spec::<usize>(val)->Some_0 };
                let rest1 = seq![o] + rest;
                assert(rest1.skip(1) =~= rest);
                assert(rest1[0] == o);
                assert(opts_decode(buf, z, rest1));
                assert(opts0 + rest1 =~= opts1 + rest);
            }
            Err(_) => {
                assert(opts_decode(buf, z, rest));
            }
        }
    }
}

// ---- completeness of the decoder: it rejects only what the wire layout cannot denote (C10, C11) -----------------
/// nothing decodes from the option part behind the NUL at `z`
pub open spec fn opts_undecodable(buf: Seq<u8>, z: int) -> bool { forall|rest: Seq<TransferOption>| !#[trigger] opts_decode(buf, z, rest) }
/// the datagram is no RRQ/WRQ body
pub open spec fn rq_undecodable(buf: Seq<u8>) -> bool {
    forall|f: Seq<char>, m: Seq<char>, o: Seq<TransferOption>| !#[trigger] rq_decodes(buf, f, m, o)
}
/// the datagram denotes no packet at all
pub open spec fn undecodable(buf: Seq<u8>) -> bool { forall|q: PktV| !#[trigger] decodes_to(buf, q) }

/// if the option part behind one successfully read (name, value) pair cannot be decoded, neither can the part that starts
/// with the pair (the pair is the only way to read on: first-NUL uniqueness)
pub proof fn lemma_opts_step_undec(buf: Seq<u8>, z: int, name: Seq<char>, z1: int, val: Seq<char>, z2: int)
    requires 0 <= z < buf.len() - 1, to_string_ok(buf, z + 1, name, z1), to_string_ok(buf, z1 + 1, val, z2),
    ensures opts_undecodable(buf, z2) ==> opts_undecodable(buf, z),
{
    if opts_undecodable(buf, z2) {
        assert forall|rest: Seq<TransferOption>| !#[trigger] opts_decode(buf, z, rest) by {
            if opts_decode(buf, z, rest) {
                let (n, y1, v, y2) = choose|n: Seq<char>, y1: int, v: Seq<char>, y2: int|
                    #[trigger] to_string_ok(buf, z + 1, n, y1) && #[trigger] to_string_ok(buf, y1 + 1, v, y2)
                    && (match option_of_name(str_lower(n)) {
                        Ok(t) => parse_spec::<usize>(v) is Some && rest.len() > 0
                            && rest[0] == (TransferOption { option: t, value: parse_spec::<usize>(v)->Some_0 })
                            && opts_decode(buf, y2, rest.skip(1)),
                        Err(_) => opts_decode(buf, y2, rest),
                    });
                lemma_to_string_unique(buf, z + 1, name, z1, n, y1);
                lemma_to_string_unique(buf, z1 + 1, val, z2, v, y2);
                match option_of_name(str_lower(n)) {
                    Ok(t) => { assert(!opts_decode(buf, z2, rest.skip(1))); }
                    Err(_) => { assert(!opts_decode(buf, z2, rest)); }
                }
            }
        }
    }
}
/// the three ways an iteration of the option loop fails make the remaining option part undecodable
pub proof fn lemma_opts_fail_undec(buf: Seq<u8>, z: int)
    requires 0 <= z < buf.len() - 1,
    ensures
        no_string_at(buf, z + 1) ==> opts_undecodable(buf, z),
        forall|name: Seq<char>, z1: int| #[trigger] to_string_ok(buf, z + 1, name, z1) && no_string_at(buf, z1 + 1) ==> opts_undecodable(buf, z),
        forall|name: Seq<char>, z1: int, val: Seq<char>, z2: int| #[trigger] to_string_ok(buf, z + 1, name, z1) && #[trigger] to_string_ok(buf, z1 + 1, val, z2)
            && option_of_name(str_lower(name)) is Ok && parse_spec::<usize>(val) is None ==> opts_undecodable(buf, z),
{
    assert forall|name: Seq<char>, z1: int| #[trigger] to_string_ok(buf, z + 1, name, z1) && no_string_at(buf, z1 + 1) implies opts_undecodable(buf, z) by {
        assert forall|rest: Seq<TransferOption>| !#[trigger] opts_decode(buf, z, rest) by {
            if opts_decode(buf, z, rest) {
                let (n, y1, v, y2) = choose|n: Seq<char>, y1: int, v: Seq<char>, y2: int|
                    #[trigger] to_string_ok(buf, z + 1, n, y1) && #[trigger] to_string_ok(buf, y1 + 1, v, y2);
                lemma_to_string_unique(buf, z + 1, name, z1, n, y1);
            }
        }
    }
    assert forall|name: Seq<char>, z1: int, val: Seq<char>, z2: int| #[trigger] to_string_ok(buf, z + 1, name, z1) && #[trigger] to_string_ok(buf, z1 + 1, val, z2)
            && option_of_name(str_lower(name)) is Ok && parse_spec::<usize>(val) is None implies opts_undecodable(buf, z) by {
        assert forall|rest: Seq<TransferOption>| !#[trigger] opts_decode(buf, z, rest) by {
            if opts_decode(buf, z, rest) {
                let (n, y1, v, y2) = choose|n: Seq<char>, y1: int, v: Seq<char>, y2: int|
                    #[trigger] to_string_ok(buf, z + 1, n, y1) && #[trigger] to_string_ok(buf, y1 + 1, v, y2)
                    && (match option_of_name(str_lower(n)) {
                        Ok(t) => parse_spec::<usize>(v) is Some,
                        Err(_) => true,
                    });
                lemma_to_string_unique(buf, z + 1, name, z1, n, y1);
                lemma_to_string_unique(buf, z1 + 1, val, z2, v, y2);
            }
        }
    }
}
/// once file name and mode have been read, an undecodable option part makes the whole request undecodable
pub proof fn lemma_rq_undec(buf: Seq<u8>, f: Seq<char>, zf: int, m: Seq<char>, zm: int)
    requires to_string_ok(buf, 2, f, zf), to_string_ok(buf, zf + 1, m, zm),
    ensures opts_undecodable(buf, zm) ==> rq_undecodable(buf),
{
    if opts_undecodable(buf, zm) {
        assert forall|f2: Seq<char>, m2: Seq<char>, o2: Seq<TransferOption>| !#[trigger] rq_decodes(buf, f2, m2, o2) by {
            if rq_decodes(buf, f2, m2, o2) {
                let (y1, y2) = choose|y1: int, y2: int| #[trigger] to_string_ok(buf, 2, f2, y1) && #[trigger] to_string_ok(buf, y1 + 1, m2, y2) && opts_decode(buf, y2, o2);
                lemma_to_string_unique(buf, 2, f, zf, f2, y1);
                lemma_to_string_unique(buf, zf + 1, m, zm, m2, y2);
            }
        }
    }
}
/// failing to read the file name or the mode
pub proof fn lemma_rq_head_undec(buf: Seq<u8>)
    ensures
        no_string_at(buf, 2) ==> rq_undecodable(buf),
        forall|f: Seq<char>, zf: int| #[trigger] to_string_ok(buf, 2, f, zf) && no_string_at(buf, zf + 1) ==> rq_undecodable(buf),
{
    assert forall|f: Seq<char>, zf: int| #[trigger] to_string_ok(buf, 2, f, zf) && no_string_at(buf, zf + 1) implies rq_undecodable(buf) by {
        assert forall|f2: Seq<char>, m2: Seq<char>, o2: Seq<TransferOption>| !#[trigger] rq_decodes(buf, f2, m2, o2) by {
            if rq_decodes(buf, f2, m2, o2) {
                let (y1, y2) = choose|y1: int, y2: int| #[trigger] to_string_ok(buf, 2, f2, y1) && #[trigger] to_string_ok(buf, y1 + 1, m2, y2) && opts_decode(buf, y2, o2);
                lemma_to_string_unique(buf, 2, f, zf, f2, y1);
            }
        }
    }
}

/// decimal text of a number (uninterpreted; `usize::to_string`)
pub uninterp spec fn dec_str(n: usize) -> Seq<char>;

/// SPECIFICATION (C11): the RFC 1350 / 2347 wire layout of a packet
pub open spec fn enc_opt(o: TransferOption) -> Seq<u8> {
    utf8_encode(option_name(o.option)) + seq![0u8] + utf8_encode(dec_str(o.value)) + seq![0u8]
}
pub open spec fn enc_opts(o: Seq<TransferOption>) -> Seq<u8>
    decreases o.len()
{
    if o.len() == 0 { Seq::<u8>::empty() } else { enc_opts(o.drop_last()) + enc_opt(o.last()) }
}
pub proof fn lemma_enc_opts_step(o: Seq<TransferOption>, i: int)
    requires 0 <= i < o.len(),
    ensures enc_opts(o.subrange(0, i + 1)) == enc_opts(o.subrange(0, i)) + enc_opt(o[i]),
{
    assert(o.subrange(0, i + 1).drop_last() =~= o.subrange(0, i));
}
pub open spec fn be_bytes(n: u16) -> Seq<u8> { seq![(n / 256) as u8, (n % 256) as u8] }
pub open spec fn enc(p: PktV) -> Seq<u8> {
    match p {
        PktV::Rrq { filename, mode, options } => seq![0u8, 1u8] + utf8_encode(filename) + seq![0u8] + utf8_encode(mode) + seq![0u8] + enc_opts(options),
        PktV::Wrq { filename, mode, options } => seq![0u8, 2u8] + utf8_encode(filename) + seq![0u8] + utf8_encode(mode) + seq![0u8] + enc_opts(options),
        PktV::Data { block_num, data } => seq![0u8, 3u8] + be_bytes(block_num) + data,
        PktV::Ack(n) => seq![0u8, 4u8] + be_bytes(n),
        PktV::Error { code, msg } => seq![0u8, 5u8] + be_bytes(errcode_num(code)) + utf8_encode(msg) + seq![0u8],
        PktV::Oack(options) => seq![0u8, 6u8] + enc_opts(options),
    }
}

// ---- C11 round trip: decoding an encoding returns the identical packet ---------------------------

/// ASSUMPTION (std): `usize::to_string` yields a non-empty string of decimal digits that `str::parse::<usize>` maps back
pub axiom fn axiom_dec_str(n: usize)
    ensures
        dec_str(n).len() > 0,
        forall|i: int| 0 <= i < dec_str(n).len() ==> '0' <= #[trigger] dec_str(n)[i] <= '9',
        parse_spec::<usize>(dec_str(n)) == Some(n);
/// ASSUMPTION (std): `str::to_lowercase` leaves a string of ASCII characters without upper-case letters unchanged
pub axiom fn axiom_lower_fixed(s: Seq<char>)
    requires forall|i: int| 0 <= i < s.len() ==> (#[trigger] s[i] as u32) < 128 && !('A' <= s[i] <= 'Z'),
    ensures str_lower(s) == s;

/// a byte string without NUL
pub open spec fn nul_free(b: Seq<u8>) -> bool { forall|i: int| 0 <= i < b.len() ==> #[trigger] b[i] != 0 }

/// the strings of a packet contain no NUL (stated on their UTF-8 bytes; U+0000 is the only character whose encoding has a zero byte)
pub open spec fn strings_nul_free(p: PktV) -> bool {
    match p {
        PktV::Rrq { filename, mode, options } => nul_free(utf8_encode(filename)) && nul_free(utf8_encode(mode)),
        PktV::Wrq { filename, mode, options } => nul_free(utf8_encode(filename)) && nul_free(utf8_encode(mode)),
        PktV::Error { code, msg } => nul_free(utf8_encode(msg)),
        _ => true,
    }
}

/// an encoded NUL-free string followed by NUL at `start` is what `Convert::to_string` finds there, and nothing else
pub proof fn lemma_string_at(buf: Seq<u8>, start: int, s: Seq<char>, s2: Seq<char>, i2: int)
    requires
        0 <= start, start + utf8_encode(s).len() < buf.len(),
        buf.subrange(start, start + utf8_encode(s).len()) == utf8_encode(s),
        buf[start + utf8_encode(s).len()] == 0,
        nul_free(utf8_encode(s)),
        to_string_ok(buf, start, s2, i2),
    ensures s2 == s, i2 == start + utf8_encode(s).len(),
{
    let e = utf8_encode(s);
    let i = start + e.len();
    vstd::utf8::encode_utf8_decode_utf8(s);
    vstd::utf8::encode_utf8_valid_utf8(s);
    assert forall|j: int| start <= j < i implies buf[j] != 0 by {
        assert(buf[j] == buf.subrange(start, i)[j - start]);
        assert(e[j - start] != 0);
    }
    assert(to_string_ok(buf, start, s, i));
    lemma_to_string_unique(buf, start, s, i, s2, i2);
}

pub proof fn lemma_option_names()
    ensures
        forall|t: OptionType| nul_free(utf8_encode(#[trigger] option_name(t))),
        forall|t: OptionType| option_of_name(str_lower(#[trigger] option_name(t))) == Ok::<OptionType, &'static str>(t),
{
    reveal_strlit("blksize"); reveal_strlit("tsize"); reveal_strlit("timeout"); reveal_strlit("windowsize");
    assert forall|t: OptionType| nul_free(utf8_encode(#[trigger] option_name(t)))
        && option_of_name(str_lower(option_name(t))) == Ok::<OptionType, &'static str>(t) by {
        let n = option_name(t);
        assert(vstd::utf8::is_ascii_chars(n));
        vstd::utf8::is_ascii_chars_encode_utf8(n);
        axiom_lower_fixed(n);
        assert("blksize"@.len() == 7 && "tsize"@.len() == 5 && "timeout"@.len() == 7 && "windowsize"@.len() == 10);
        assert("blksize"@[0] == 'b' && "timeout"@[0] == 't');
    }
}

pub proof fn lemma_dec_str_nul_free(n: usize)
    ensures nul_free(utf8_encode(dec_str(n))),
{
    axiom_dec_str(n);
    let d = dec_str(n);
    assert(vstd::utf8::is_ascii_chars(d)) by {
        assert forall|i: int| 0 <= i < d.len() implies (#[trigger] d[i] as nat) < 128 by { assert('0' <= d[i] <= '9'); }
    }
    vstd::utf8::is_ascii_chars_encode_utf8(d);
    assert forall|i: int| 0 <= i < utf8_encode(d).len() implies #[trigger] utf8_encode(d)[i] != 0 by { assert('0' <= d[i] <= '9'); }
}

/// `enc_opts` unfolds from the front as well
pub proof fn lemma_enc_opts_front(o: Seq<TransferOption>)
    requires o.len() > 0,
    ensures enc_opts(o) == enc_opt(o[0]) + enc_opts(o.skip(1)),
    decreases o.len(),
{
    if o.len() == 1 {
        assert(o.drop_last() =~= Seq::<TransferOption>::empty());
        assert(o.skip(1) =~= Seq::<TransferOption>::empty());
        assert(enc_opts(o.drop_last()) =~= Seq::<u8>::empty());
        assert(enc_opts(o) =~= enc_opt(o[0]) + enc_opts(o.skip(1)));
    } else {
        lemma_enc_opts_front(o.drop_last());
        assert(o.drop_last().skip(1) =~= o.skip(1).drop_last());
        assert(o.skip(1).last() == o.last());
        assert(o.drop_last()[0] == o[0]);
        assert(enc_opts(o) =~= enc_opt(o[0]) + enc_opts(o.skip(1)));
    }
}

/// the option part: if the bytes behind the NUL at `z` are `enc_opts(o)`, the only list they decode to is `o`
pub proof fn lemma_opts_roundtrip(buf: Seq<u8>, z: int, o: Seq<TransferOption>, q: Seq<TransferOption>)
    requires
        0 <= z < buf.len(),
        buf.subrange(z + 1, buf.len() as int) == enc_opts(o),
        opts_decode(buf, z, q),
    ensures q == o,
    decreases o.len(),
{
    if o.len() == 0 {
        assert(buf.len() == z + 1);
        assert(q =~= o);
    } else {
        lemma_enc_opts_front(o);
        lemma_option_names();
        let t = o[0].option;
        let v = o[0].value;
        lemma_dec_str_nul_free(v);
        axiom_dec_str(v);
        let en = utf8_encode(option_name(t));
        let ev = utf8_encode(dec_str(v));
        let rest = enc_opts(o.skip(1));
        let tail = buf.subrange(z + 1, buf.len() as int);
        assert(tail == en + seq![0u8] + ev + seq![0u8] + rest);
        assert(tail.len() == en.len() + 1 + ev.len() + 1 + rest.len());
        assert(z < buf.len() - 1);
        let a = z + 1;
        let b = a + en.len() + 1;
        assert(buf.subrange(a, a + en.len()) =~= en) by {
            assert forall|j: int| 0 <= j < en.len() implies buf[a + j] == en[j] by { assert(buf[a + j] == tail[j]); }
        }
        assert(buf[a + en.len()] == 0) by { assert(buf[a + en.len()] == tail[en.len() as int]); }
        assert(buf.subrange(b, b + ev.len()) =~= ev) by {
            assert forall|j: int| 0 <= j < ev.len() implies buf[b + j] == ev[j] by { assert(buf[b + j] == tail[en.len() + 1 + j]); }
        }
        assert(buf[b + ev.len()] == 0) by { assert(buf[b + ev.len()] == tail[(en.len() + 1 + ev.len()) as int]); }
        let (name, z1, val, z2) = choose|name: Seq<char>, z1: int, val: Seq<char>, z2: int|
            #[trigger] to_string_ok(buf, z + 1, name, z1) && #[trigger] to_string_ok(buf, z1 + 1, val, z2)
            && (match option_of_name(str_lower(name)) {
                Ok(t) => parse_spec::<usize>(val) is Some && q.len() > 0
                    && q[0] == (TransferOption { option: t, value: parse_spec::<usize>(val)->Some_0 })
                    && opts_decode(buf, z2, q.skip(1)),
                Err(_) => opts_decode(buf, z2, q),
            });
        lemma_string_at(buf, a, option_name(t), name, z1);
        assert(z1 + 1 == b);
        lemma_string_at(buf, b, dec_str(v), val, z2);
        let z2e = b + ev.len();
        assert(z2 == z2e);
        assert(buf.subrange(z2 + 1, buf.len() as int) =~= rest) by {
            assert forall|j: int| 0 <= j < rest.len() implies buf[z2 + 1 + j] == rest[j] by { assert(buf[z2 + 1 + j] == tail[en.len() + 1 + ev.len() + 1 + j]); }
        }
        assert(q[0] == o[0]);
        lemma_opts_roundtrip(buf, z2, o.skip(1), q.skip(1));
        assert(q =~= o) by {
            assert(q.len() == o.len());
            assert forall|j: int| 0 <= j < q.len() implies q[j] == o[j] by {
                if j > 0 { assert(q[j] == q.skip(1)[j - 1]); assert(o[j] == o.skip(1)[j - 1]); }
            }
        }
    }
}

/// RRQ / WRQ body
pub proof fn lemma_rq_roundtrip(buf: Seq<u8>, op: u8, f: Seq<char>, m: Seq<char>, o: Seq<TransferOption>,
                                f2: Seq<char>, m2: Seq<char>, o2: Seq<TransferOption>)
    requires
        buf == seq![0u8, op] + utf8_encode(f) + seq![0u8] + utf8_encode(m) + seq![0u8] + enc_opts(o),
        nul_free(utf8_encode(f)), nul_free(utf8_encode(m)),
        rq_decodes(buf, f2, m2, o2),
    ensures f2 == f, m2 == m, o2 == o,
{
    let ef = utf8_encode(f);
    let em = utf8_encode(m);
    let (z1, z2) = choose|z1: int, z2: int| #[trigger] to_string_ok(buf, 2, f2, z1) && #[trigger] to_string_ok(buf, z1 + 1, m2, z2) && opts_decode(buf, z2, o2);
    assert(buf.len() == 2 + ef.len() + 1 + em.len() + 1 + enc_opts(o).len());
    assert(buf.subrange(2, 2 + ef.len() as int) =~= ef);
    assert(buf[2 + ef.len() as int] == 0);
    lemma_string_at(buf, 2, f, f2, z1);
    let b: int = 2 + ef.len() as int + 1;
    assert(buf.subrange(b, b + em.len() as int) =~= em);
    assert(buf[b + em.len() as int] == 0);
    lemma_string_at(buf, b, m, m2, z2);
    assert(buf.subrange(z2 + 1, buf.len() as int) =~= enc_opts(o));
    lemma_opts_roundtrip(buf, z2, o, o2);
}

/// an encoded NUL-free string followed by NUL at `start` is found there by `Convert::to_string`
pub proof fn lemma_string_here(buf: Seq<u8>, start: int, s: Seq<char>)
    requires
        0 <= start, start + utf8_encode(s).len() < buf.len(),
        buf.subrange(start, start + utf8_encode(s).len()) == utf8_encode(s),
        buf[start + utf8_encode(s).len()] == 0,
        nul_free(utf8_encode(s)),
    ensures to_string_ok(buf, start, s, start + utf8_encode(s).len()),
{
    let e = utf8_encode(s);
    let i = start + e.len();
    vstd::utf8::encode_utf8_decode_utf8(s);
    vstd::utf8::encode_utf8_valid_utf8(s);
    assert forall|j: int| start <= j < i implies buf[j] != 0 by {
        assert(buf[j] == buf.subrange(start, i)[j - start]);
        assert(e[j - start] != 0);
    }
}

/// existence: the encoded option list decodes to itself
pub proof fn lemma_opts_enc_decodes(buf: Seq<u8>, z: int, o: Seq<TransferOption>)
    requires 0 <= z < buf.len(), buf.subrange(z + 1, buf.len() as int) == enc_opts(o),
    ensures opts_decode(buf, z, o),
    decreases o.len(),
{
    if o.len() == 0 {
        assert(buf.len() == z + 1);
    } else {
        lemma_enc_opts_front(o);
        lemma_option_names();
        let t = o[0].option;
        let v = o[0].value;
        lemma_dec_str_nul_free(v);
        axiom_dec_str(v);
        let en = utf8_encode(option_name(t));
        let ev = utf8_encode(dec_str(v));
        let rest = enc_opts(o.skip(1));
        let tail = buf.subrange(z + 1, buf.len() as int);
        assert(tail == en + seq![0u8] + ev + seq![0u8] + rest);
        assert(tail.len() == en.len() + 1 + ev.len() + 1 + rest.len());
        let a = z + 1;
        let b = a + en.len() + 1;
        assert(buf.subrange(a, a + en.len()) =~= en) by {
            assert forall|j: int| 0 <= j < en.len() implies buf[a + j] == en[j] by { assert(buf[a + j] == tail[j]); }
        }
        assert(buf[a + en.len()] == 0) by { assert(buf[a + en.len()] == tail[en.len() as int]); }
        assert(buf.subrange(b, b + ev.len()) =~= ev) by {
            assert forall|j: int| 0 <= j < ev.len() implies buf[b + j] == ev[j] by { assert(buf[b + j] == tail[en.len() + 1 + j]); }
        }
        assert(buf[b + ev.len()] == 0) by { assert(buf[b + ev.len()] == tail[(en.len() + 1 + ev.len()) as int]); }
        let z1 = a + en.len();
        let z2 = b + ev.len();
        lemma_string_here(buf, a, option_name(t));
        lemma_string_here(buf, b, dec_str(v));
        assert(buf.subrange(z2 + 1, buf.len() as int) =~= rest) by {
            assert forall|j: int| 0 <= j < rest.len() implies buf[z2 + 1 + j] == rest[j] by { assert(buf[z2 + 1 + j] == tail[en.len() + 1 + ev.len() + 1 + j]); }
        }
        lemma_opts_enc_decodes(buf, z2, o.skip(1));
        assert(to_string_ok(buf, z + 1, option_name(t), z1) && to_string_ok(buf, z1 + 1, dec_str(v), z2));
        assert(o[0] == (TransferOption { option: t, value: parse_spec::<usize>(dec_str(v))->Some_0 }));
    }
}

/// SPECIFICATION (C11): the encoding of a packet (strings without NUL) denotes that packet - so the decoder, which rejects
/// only what denotes no packet, accepts it
pub proof fn lemma_enc_decodes(p: PktV)
    requires strings_nul_free(p),
    ensures decodes_to(enc(p), p),
{
    let buf = enc(p);
    match p {
        PktV::Rrq { filename, mode, options } => {
            assert(buf[0] == 0 && buf[1] == 1);
            lemma_rq_enc_decodes(buf, 1, filename, mode, options);
        }
        PktV::Wrq { filename, mode, options } => {
            assert(buf[0] == 0 && buf[1] == 2);
            lemma_rq_enc_decodes(buf, 2, filename, mode, options);
        }
        PktV::Data { block_num, data } => {
            assert(buf[0] == 0 && buf[1] == 3 && buf[2] == (block_num / 256) as u8 && buf[3] == (block_num % 256) as u8);
            assert(buf.subrange(4, buf.len() as int) =~= data);
        }
        PktV::Ack(n) => {
            assert(buf[0] == 0 && buf[1] == 4 && buf[2] == (n / 256) as u8 && buf[3] == (n % 256) as u8);
        }
        PktV::Error { code, msg } => {
            let c = errcode_num(code);
            let em = utf8_encode(msg);
            assert(buf[0] == 0 && buf[1] == 5 && buf[2] == 0 && buf[3] == c as u8);
            assert(buf.len() == 4 + em.len() + 1);
            assert(buf.subrange(4, 4 + em.len() as int) =~= em);
            assert(buf[4 + em.len() as int] == 0);
            lemma_string_here(buf, 4, msg);
        }
        PktV::Oack(options) => {
            assert(buf[0] == 0 && buf[1] == 6);
            assert(buf.subrange(2, buf.len() as int) =~= enc_opts(options));
            lemma_opts_enc_decodes(buf, 1, options);
        }
    }
}
pub proof fn lemma_rq_enc_decodes(buf: Seq<u8>, op: u8, f: Seq<char>, m: Seq<char>, o: Seq<TransferOption>)
    requires
        buf == seq![0u8, op] + utf8_encode(f) + seq![0u8] + utf8_encode(m) + seq![0u8] + enc_opts(o),
        nul_free(utf8_encode(f)), nul_free(utf8_encode(m)),
    ensures rq_decodes(buf, f, m, o),
{
    let ef = utf8_encode(f);
    let em = utf8_encode(m);
    assert(buf.len() == 2 + ef.len() + 1 + em.len() + 1 + enc_opts(o).len());
    assert(buf.subrange(2, 2 + ef.len() as int) =~= ef);
    assert(buf[2 + ef.len() as int] == 0);
    lemma_string_here(buf, 2, f);
    let z1: int = 2 + ef.len() as int;
    let b: int = z1 + 1;
    assert(buf.subrange(b, b + em.len() as int) =~= em);
    assert(buf[b + em.len() as int] == 0);
    lemma_string_here(buf, b, m);
    let z2: int = b + em.len() as int;
    assert(buf.subrange(z2 + 1, buf.len() as int) =~= enc_opts(o));
    lemma_opts_enc_decodes(buf, z2, o);
    assert(to_string_ok(buf, 2, f, z1) && to_string_ok(buf, z1 + 1, m, z2) && opts_decode(buf, z2, o));
}

/// a string read by `Convert::to_string` re-encodes to the bytes it was read from, which contain no NUL
pub proof fn lemma_read_string_nul_free(buf: Seq<u8>, start: int, s: Seq<char>, i: int)
    requires 0 <= start, to_string_ok(buf, start, s, i),
    ensures nul_free(utf8_encode(s)),
{
    let b = buf.subrange(start, i);
    vstd::utf8::decode_utf8_encode_utf8(b);
    assert forall|j: int| 0 <= j < b.len() implies #[trigger] b[j] != 0 by { assert(b[j] == buf[start + j]); }
}
/// the strings of a decoded packet contain no NUL
pub proof fn lemma_decoded_strings_nul_free(buf: Seq<u8>, p: PktV)
    requires decodes_to(buf, p),
    ensures strings_nul_free(p),
{
    match p {
        PktV::Rrq { filename, mode, options } => {
            let (z1, z2) = choose|z1: int, z2: int| #[trigger] to_string_ok(buf, 2, filename, z1) && #[trigger] to_string_ok(buf, z1 + 1, mode, z2) && opts_decode(buf, z2, options);
            lemma_read_string_nul_free(buf, 2, filename, z1);
            lemma_read_string_nul_free(buf, z1 + 1, mode, z2);
        }
        PktV::Wrq { filename, mode, options } => {
            let (z1, z2) = choose|z1: int, z2: int| #[trigger] to_string_ok(buf, 2, filename, z1) && #[trigger] to_string_ok(buf, z1 + 1, mode, z2) && opts_decode(buf, z2, options);
            lemma_read_string_nul_free(buf, 2, filename, z1);
            lemma_read_string_nul_free(buf, z1 + 1, mode, z2);
        }
        PktV::Error { code, msg } => {
            if exists|i: int| to_string_ok(buf, 4, msg, i) {
                let i = choose|i: int| to_string_ok(buf, 4, msg, i);
                lemma_read_string_nul_free(buf, 4, msg, i);
            } else {
                reveal_strlit("(no message)");
                let n = "(no message)"@;
                assert(vstd::utf8::is_ascii_chars(n));
                vstd::utf8::is_ascii_chars_encode_utf8(n);
            }
        }
        _ => {}
    }
}

/// SPECIFICATION (C11): decoding the encoding of a packet (strings without NUL) can only return the identical packet.
/// Together with `Packet::serialize`'s postcondition (`bytes == enc(p)`) and `Packet::deserialize`'s (`Ok(q) ==> decodes_to(bytes, q)`)
/// this is the round trip.
pub proof fn lemma_roundtrip(p: PktV, q: PktV)
    requires strings_nul_free(p), decodes_to(enc(p), q),
    ensures q == p,
{
    let buf = enc(p);
    match p {
        PktV::Rrq { filename, mode, options } => {
            assert(buf[0] == 0 && buf[1] == 1);
            assert(be16(buf, 0) == 1);
            match q { PktV::Rrq { filename: f2, mode: m2, options: o2 } => { lemma_rq_roundtrip(buf, 1, filename, mode, options, f2, m2, o2); } _ => {} }
        }
        PktV::Wrq { filename, mode, options } => {
            assert(buf[0] == 0 && buf[1] == 2);
            assert(be16(buf, 0) == 2);
            match q { PktV::Wrq { filename: f2, mode: m2, options: o2 } => { lemma_rq_roundtrip(buf, 2, filename, mode, options, f2, m2, o2); } _ => {} }
        }
        PktV::Data { block_num, data } => {
            assert(buf[0] == 0 && buf[1] == 3 && buf[2] == (block_num / 256) as u8 && buf[3] == (block_num % 256) as u8);
            assert(be16(buf, 0) == 3 && be16(buf, 2) == block_num);
            assert(buf.subrange(4, buf.len() as int) =~= data);
        }
        PktV::Ack(n) => {
            assert(buf[0] == 0 && buf[1] == 4 && buf[2] == (n / 256) as u8 && buf[3] == (n % 256) as u8);
            assert(be16(buf, 0) == 4 && be16(buf, 2) == n);
        }
        PktV::Error { code, msg } => {
            let c = errcode_num(code);
            let em = utf8_encode(msg);
            assert(buf[0] == 0 && buf[1] == 5 && buf[2] == 0 && buf[3] == c as u8);
            assert(be16(buf, 0) == 5 && be16(buf, 2) == c);
            assert(buf.len() == 4 + em.len() + 1);
            assert(buf.subrange(4, 4 + em.len() as int) =~= em);
            assert(buf[4 + em.len() as int] == 0);
            match q {
                PktV::Error { code: c2, msg: m2 } => {
                    assert(c2 == code);
                    vstd::utf8::encode_utf8_decode_utf8(msg);
                    vstd::utf8::encode_utf8_valid_utf8(msg);
                    assert(to_string_ok(buf, 4, msg, 4 + em.len() as int)) by {
                        assert forall|j: int| 4 <= j < 4 + em.len() implies buf[j] != 0 by { assert(buf[j] == em[j - 4]); }
                    }
                    if exists|i: int| to_string_ok(buf, 4, m2, i) {
                        let i = choose|i: int| to_string_ok(buf, 4, m2, i);
                        lemma_string_at(buf, 4, msg, m2, i);
                    }
                }
                _ => {}
            }
        }
        PktV::Oack(options) => {
            assert(buf[0] == 0 && buf[1] == 6);
            assert(be16(buf, 0) == 6);
            match q { PktV::Oack(o2) => {
                assert(buf.subrange(2, buf.len() as int) =~= enc_opts(options));
                lemma_opts_roundtrip(buf, 1, options, o2);
            } _ => {} }
        }
    }
}

/// SPECIFICATION (C10, C11): `p` is what the datagram `buf` decodes to
pub open spec fn decodes_to(buf: Seq<u8>, p: PktV) -> bool {
    buf.len() >= 2 && (match p {
        PktV::Data { block_num, data } => be16(buf, 0) == 3 && buf.len() >= 4 && block_num == be16(buf, 2) && data == buf.subrange(4, buf.len() as int),
        PktV::Ack(n) => be16(buf, 0) == 4 && buf.len() >= 4 && n == be16(buf, 2),
        PktV::Error { code, msg } => be16(buf, 0) == 5 && buf.len() >= 4 && errcode_num(code) == be16(buf, 2)
            && ((exists|i: int| to_string_ok(buf, 4, msg, i)) || (msg == "(no message)"@ && no_string_at(buf, 4))),
        PktV::Rrq { filename, mode, options } => be16(buf, 0) == 1 && rq_decodes(buf, filename, mode, options),
        PktV::Wrq { filename, mode, options } => be16(buf, 0) == 2 && rq_decodes(buf, filename, mode, options),
        PktV::Oack(options) => be16(buf, 0) == 6 && opts_decode(buf, 1, options),
    })
}
pub open spec fn rq_decodes(buf: Seq<u8>, filename: Seq<char>, mode: Seq<char>, options: Seq<TransferOption>) -> bool {
    exists|z1: int, z2: int| #[trigger] to_string_ok(buf, 2, filename, z1) && #[trigger] to_string_ok(buf, z1 + 1, mode, z2) && opts_decode(buf, z2, options)
}

/// RFC 1350 opcode numbers
pub open spec fn opcode_num(o: Opcode) -> u16 {
    match o { Opcode::Rrq => 1, Opcode::Wrq => 2, Opcode::Data => 3, Opcode::Ack => 4, Opcode::Error => 5, Opcode::Oack => 6 }
}
/// RFC 1350 error codes
pub open spec fn errcode_num(c: ErrorCode) -> u16 {
    match c {
        ErrorCode::NotDefined => 0, ErrorCode::FileNotFound => 1, ErrorCode::AccessViolation => 2, ErrorCode::DiskFull => 3,
        ErrorCode::IllegalOperation => 4, ErrorCode::UnknownId => 5, ErrorCode::FileExists => 6, ErrorCode::NoSuchUser => 7,
    }
}

/// mathematical view of a `Packet` (Vec / String replaced by sequences)
pub enum PktV {
    Rrq { filename: Seq<char>, mode: Seq<char>, options: Seq<TransferOption> },
    Wrq { filename: Seq<char>, mode: Seq<char>, options: Seq<TransferOption> },
    Data { block_num: u16, data: Seq<u8> },
    Ack(u16),
    Error { code: ErrorCode, msg: Seq<char> },
    Oack(Seq<TransferOption>),
}

pub open spec fn pkt_view(p: Packet) -> PktV {
    match p {
        Packet::Rrq { filename, mode, options } => PktV::Rrq { filename: filename@, mode: mode@, options: options@ },
        Packet::Wrq { filename, mode, options } => PktV::Wrq { filename: filename@, mode: mode@, options: options@ },
        Packet::Data { block_num, data } => PktV::Data { block_num, data: data@ },
        Packet::Ack(n) => PktV::Ack(n),
        Packet::Error { code, msg } => PktV::Error { code, msg: msg@ },
        Packet::Oack(options) => PktV::Oack(options@),
    }
}

/// what a receive attempt produced: `None` = time-out, I/O error or undecodable datagram
pub open spec fn recv_view(r: Result<Packet, Box<dyn std::error::Error>>) -> Option<PktV> {
    match r {
        Ok(p) => Some(pkt_view(p)),
        Err(_) => None,
    }
}

pub open spec fn recv_from_view(r: Result<(Packet, std::net::SocketAddr), Box<dyn std::error::Error>>) -> Option<(PktV, std::net::SocketAddr)> {
    match r {
        Ok((p, a)) => Some((pkt_view(p), a)),
        Err(_) => None,
    }
}

/// Ghost record of one transfer (one `Worker` run).  It is threaded through every function that can
/// emit; the weaver pushes onto `ev` in front of every call of a leaf `Socket::send` and updates the
/// receive fields behind every receive call.
pub tracked struct Trace {
    /// every datagram handed to the socket, in order
    pub ghost ev: Seq<PktV>,
    /// number of emissions that have been justified (granted by the contract) but not made yet
    pub ghost credit: nat,
    /// result of the most recent receive attempt
    pub ghost last: Option<PktV>,
    /// consecutive receive attempts that brought nothing usable (drives the retry bound)
    pub ghost fails: nat,
    /// sender only: the window changed (start of transfer or an acknowledgement inside the window) since the last transmission
    pub ghost fresh: bool,
    /// sender only: value returned by the most recent clock reading, and the length of `ev` at that moment
    pub ghost last_now: std::time::Instant,
    pub ghost now_mark: nat,
    /// sender only: state at the most recent receive attempt (front block number, buffered pieces, length of `ev`)
    pub ghost snap_bn: u16,
    pub ghost snap_elems: Seq<Seq<u8>>,
    pub ghost snap_ev_len: nat,
    /// a receive attempt has been made in the current loop iteration and is being handled
    pub ghost handling: bool,
    /// receiver only: payloads accepted so far (in-sequence DATA blocks, each once)
    pub ghost accepted: Seq<Seq<u8>>,
    /// receiver only: an accepted block was shorter than the block size (transfer complete)
    pub ghost fin: bool,
    /// receiver only: a DATA block arrived that is not the next in sequence; the last in-sequence block must be acknowledged again
    pub ghost reack: bool,
    /// receiver only: content of the file being written, as of the last write attempt
    pub ghost stored: Seq<u8>,
    /// receiver only: consecutive receive attempts that brought no datagram at all (time-outs) since the last datagram of any kind
    pub ghost silent: nat,
}

/// the trace of a transfer that has not started
pub open spec fn trace_is_fresh(t: Trace) -> bool {
    t.ev.len() == 0 && t.credit == 0 && t.last is None && t.fails == 0 && t.fresh && t.now_mark == 0 && t.snap_elems.len() == 0 && t.snap_ev_len == 0
    && !t.handling && t.accepted.len() == 0 && !t.fin && !t.reack && t.stored == Seq::<u8>::empty() && t.silent == 0
}
pub proof fn trace_fresh() -> (tracked t: Trace)
    ensures trace_is_fresh(t),
{
    Trace { ev: Seq::empty(), credit: 0, last: None, fails: 0, fresh: true, last_now: arbitrary(), now_mark: 0, snap_bn: 0, snap_elems: Seq::empty(),
            snap_ev_len: 0, handling: false, accepted: Seq::empty(), fin: false, reack: false, stored: Seq::empty(), silent: 0 }
}

/// n copies of x
pub open spec fn rep(x: PktV, n: nat) -> Seq<PktV> { Seq::new(n, |i: int| x) }

/// block number on the wire of the block with true (unbounded) index j
pub open spec fn wire(j: int) -> u16 { (j % 65536) as u16 }

/// the datagrams one transmission of a window consists of: piece i carries number wire(base + i), each `n` times
pub open spec fn window_events(elems: Seq<Seq<u8>>, bn: u16, n: nat) -> Seq<PktV>
    decreases elems.len()
{
    if elems.len() == 0 { Seq::<PktV>::empty() }
    else { window_events(elems.drop_last(), bn, n) + rep(data_ev(bn, elems.len() - 1, elems.last()), n) }
}

pub open spec fn data_ev(bn: u16, i: int, d: Seq<u8>) -> PktV { PktV::Data { block_num: wire(bn + i), data: d } }

pub proof fn lemma_window_events_step(s: Seq<Seq<u8>>, bn: u16, n: nat, i: int)
    requires 0 <= i < s.len(),
    ensures window_events(s.subrange(0, i + 1), bn, n) == window_events(s.subrange(0, i), bn, n) + rep(data_ev(bn, i, s[i]), n),
{
    assert(s.subrange(0, i + 1).drop_last() =~= s.subrange(0, i));
}

pub open spec fn is_prefix<A>(p: Seq<A>, s: Seq<A>) -> bool { p.len() <= s.len() && p == s.subrange(0, p.len() as int) }

pub proof fn lemma_prefix_ext<A>(p: Seq<A>, s: Seq<A>, t: Seq<A>)
    requires is_prefix(p, s),
    ensures is_prefix(p, s + t),
{
    assert((s + t).subrange(0, p.len() as int) =~= s.subrange(0, p.len() as int));
}

pub proof fn lemma_window_events_prefix(s: Seq<Seq<u8>>, bn: u16, n: nat, i: int)
    requires 0 <= i <= s.len(),
    ensures is_prefix(window_events(s.subrange(0, i), bn, n), window_events(s, bn, n)),
    decreases s.len() - i,
{
    if i == s.len() {
        assert(s.subrange(0, i) =~= s);
        assert(window_events(s, bn, n).subrange(0, window_events(s, bn, n).len() as int) =~= window_events(s, bn, n));
    } else {
        lemma_window_events_prefix(s, bn, n, i + 1);
        lemma_window_events_step(s, bn, n, i);
        let a = window_events(s.subrange(0, i), bn, n);
        let b = window_events(s.subrange(0, i + 1), bn, n);
        let c = window_events(s, bn, n);
        assert(b.subrange(0, a.len() as int) =~= a);
        assert(c.subrange(0, a.len() as int) =~= c.subrange(0, b.len() as int).subrange(0, a.len() as int));
    }
}

/// a partially emitted window (i full pieces and k copies of piece i) is a prefix of the whole emission
pub proof fn lemma_window_events_partial(s: Seq<Seq<u8>>, bn: u16, n: nat, i: int, k: nat)
    requires 0 <= i < s.len(), k <= n,
    ensures is_prefix(window_events(s.subrange(0, i), bn, n) + rep(data_ev(bn, i, s[i]), k), window_events(s, bn, n)),
{
    lemma_window_events_step(s, bn, n, i);
    lemma_window_events_prefix(s, bn, n, i + 1);
    let a = window_events(s.subrange(0, i), bn, n);
    let x = data_ev(bn, i, s[i]);
    let b = window_events(s.subrange(0, i + 1), bn, n);
    let c = window_events(s, bn, n);
    assert(b == a + rep(x, n));
    assert((a + rep(x, n)).subrange(0, (a.len() + k) as int) =~= a + rep(x, k));
    assert(c.subrange(0, (a.len() + k) as int) =~= c.subrange(0, b.len() as int).subrange(0, (a.len() + k) as int));
}

/// appending (a prefix of) one transmission of an aligned window keeps every DATA datagram equal to its slice of the file
pub proof fn lemma_batch_ok(ev: Seq<PktV>, p: Seq<PktV>, from: int, data: Seq<u8>, cs: nat, elems: Seq<Seq<u8>>, bn: u16, n: nat, taken: nat)
    requires
        cs > 0, 0 <= from <= ev.len(),
        all_sender_ok(ev, from, data, cs),
        is_prefix(p, window_events(elems, bn, n)),
        elems.len() <= taken, taken <= nblocks(data.len(), cs),
        bn == wire(taken - elems.len() + 1),
        forall|i: int| 0 <= i < elems.len() ==> #[trigger] elems[i] == piece(data, cs, (taken - elems.len() + i) as nat),
    ensures
        all_sender_ok(ev + p, from, data, cs),
{
    let w = window_events(elems, bn, n);
    assert forall|k: int| from <= k < (ev + p).len() implies sender_ev_ok(#[trigger] (ev + p)[k], data, cs) by {
        if k < ev.len() {
            assert((ev + p)[k] == ev[k]);
        } else {
            let m = k - ev.len();
            assert((ev + p)[k] == p[m]);
            assert(p[m] == w.subrange(0, p.len() as int)[m]);
            lemma_window_events_members(elems, bn, n, m);
            let i = choose|i: int| 0 <= i < elems.len() && w[m] == #[trigger] data_ev(bn, i, elems[i]);
            let j = taken - elems.len() + 1 + i;
            lemma_wire_add(taken - elems.len() + 1, i);
            assert(1 <= j <= nblocks(data.len(), cs));
            assert(elems[i] == piece(data, cs, (j - 1) as nat));
            assert(wire(bn + i) == wire(j));
        }
    }
}

pub proof fn lemma_rep_prefix(x: PktV, n: nat, p: Seq<PktV>)
    requires is_prefix(p, rep(x, n)),
    ensures p == rep(x, p.len()), p.len() <= n,
{
    assert(p =~= rep(x, p.len()));
}

pub proof fn lemma_mul_step(i: nat, n: nat)
    ensures (i + 1) * n == i * n + n, 0 * n == 0,
{
    assert((i + 1) * n == i * n + n) by(nonlinear_arith);
}

pub proof fn lemma_wire_succ(bn: u16, i: int)
    requires i >= 0,
    ensures wire(bn + i + 1) == wire(wire(bn + i) + 1), wire(bn + 0) == bn,
{
}

// ---- option negotiation (C09) ---------------------------------------------------------------------

/// SPECIFICATION: the values the server can honour (RFC 2348 / 2349 / 7440)
pub open spec fn opt_valid(o: TransferOption) -> bool {
    match o.option {
        OptionType::BlockSize => 8 <= o.value <= 65464,
        OptionType::Timeout => 1 <= o.value <= 255,
        OptionType::Windowsize => 1 <= o.value <= 65535,
        OptionType::TransferSize => true,
    }
}
pub open spec fn opts_valid(s: Seq<TransferOption>) -> bool {
    forall|i: int| 0 <= i < s.len() ==> opt_valid(#[trigger] s[i])
}
/// value of the last option of type `t` in the list
pub open spec fn opt_last(s: Seq<TransferOption>, t: OptionType) -> Option<usize>
    decreases s.len()
{
    if s.len() == 0 { None }
    else if s.last().option == t { Some(s.last().value) }
    else { opt_last(s.drop_last(), t) }
}
pub open spec fn opt_or(o: Option<usize>, d: usize) -> usize { match o { Some(v) => v, None => d } }
/// the last value of a kind in a list of honourable options is honourable
pub proof fn lemma_opt_last_valid(s: Seq<TransferOption>, t: OptionType)
    requires opts_valid(s),
    ensures opt_last(s, t) matches Some(v) ==> opt_valid(TransferOption { option: t, value: v }),
    decreases s.len(),
{
    if s.len() > 0 {
        if s.last().option == t { assert(opt_valid(s[s.len() - 1])); } else {
            assert forall|i: int| 0 <= i < s.drop_last().len() implies opt_valid(#[trigger] s.drop_last()[i]) by { assert(opt_valid(s[i])); }
            lemma_opt_last_valid(s.drop_last(), t);
        }
    }
}

pub proof fn lemma_opt_last_step(s: Seq<TransferOption>, i: int, t: OptionType)
    requires 0 <= i < s.len(),
    ensures opt_last(s.subrange(0, i + 1), t) == (if s[i].option == t { Some(s[i].value) } else { opt_last(s.subrange(0, i), t) }),
{
    assert(s.subrange(0, i + 1).drop_last() =~= s.subrange(0, i));
}
/// SPECIFICATION: what the server echoes: the request's options, tsize replaced by the file size on a read
pub open spec fn opt_echo(o: TransferOption, read_size: Option<u64>) -> TransferOption {
    match (o.option, read_size) {
        (OptionType::TransferSize, Some(sz)) => TransferOption { option: o.option, value: sz as usize },
        _ => o,
    }
}
pub open spec fn opts_echo(s: Seq<TransferOption>, read_size: Option<u64>) -> Seq<TransferOption> {
    Seq::new(s.len(), |i: int| opt_echo(s[i], read_size))
}

// ---- the listener's ghost log (C03, C05, C06, C09, C12) --------------------------------------------

pub enum XferKind { Send, Receive }

/// observable effects of the listener: datagrams from the listening socket, datagrams on a fresh transfer
/// socket (OACK / ACK 0), transfers started (the only code that opens, creates or deletes files runs inside a
/// spawned Worker), datagrams forwarded to a running transfer
pub enum SEv {
    SentTo { pkt: PktV, to: std::net::SocketAddr },
    Sent { pkt: PktV },
    Spawned { kind: XferKind, path: Seq<char>, blk: usize, tmo: std::time::Duration, ws: u16, rep: u8, check: bool, clean: bool },
    Routed { pkt: PktV, to: std::net::SocketAddr },
}

pub tracked struct STrace {
    pub ghost ev: Seq<SEv>,
    /// length of `ev` when the datagram being handled was received, and that datagram (`None`: nothing decodable)
    pub ghost iter_start: nat,
    pub ghost cur: Option<(PktV, std::net::SocketAddr)>,
    /// whether the source of that datagram owned a transfer (single-port mode) when it arrived
    pub ghost known: bool,
    /// size of the shared single-port receive buffer when that datagram arrived
    pub ghost lbs_mark: usize,
}

/// exactly one datagram: ERROR `code` to `to` from the listening socket, nothing else
pub open spec fn refusal(evs: Seq<SEv>, code: ErrorCode, to: std::net::SocketAddr) -> bool {
    evs.len() == 1 && (evs[0] matches SEv::SentTo { pkt: PktV::Error { code: c, .. }, to: t } && c == code && t == to)
}

/// the settings a transfer is started with
pub struct Settings { pub blk: usize, pub tmo_nanos: nat, pub ws: u16 }

/// SPECIFICATION (C09): settings = requested values, RFC 1350 defaults otherwise
pub open spec fn settings_of(opts: Seq<TransferOption>) -> Settings {
    Settings {
        blk: opt_or(opt_last(opts, OptionType::BlockSize), 512),
        tmo_nanos: (opt_or(opt_last(opts, OptionType::Timeout), 5) * 1000000000) as nat,
        ws: opt_or(opt_last(opts, OptionType::Windowsize), 1) as u16,
    }
}

/// SPECIFICATION (C09): the reply that opens an accepted transfer: OACK echoing the request's options (tsize =
/// true file size on a read) iff there is at least one recognised option; otherwise ACK 0 for a write, nothing for a read
pub open spec fn handshake_ok(evs: Seq<SEv>, req_opts: Seq<TransferOption>, read_size: Option<u64>) -> bool {
    if req_opts.len() > 0 {
        evs.len() == 1 && (evs[0] matches SEv::Sent { pkt: PktV::Oack(o) } && o =~= opts_echo(req_opts, read_size))
    } else if read_size is None {
        evs.len() == 1 && evs[0] == (SEv::Sent { pkt: PktV::Ack(0) })
    } else {
        evs.len() == 0
    }
}

/// number of handshake datagrams an accepted request is answered with on the transfer socket
pub open spec fn n_handshake(req_opts: Seq<TransferOption>, read_size: Option<u64>) -> int {
    if req_opts.len() > 0 || read_size is None { 1 } else { 0 }
}

/// SPECIFICATION (shape of an accepted request's effects): handshake datagram(s) on the transfer socket, then the one
/// spawn -- or, when something failed on the way, a prefix of that with NO spawn.  Nothing from the listening
/// socket, nothing routed.
pub open spec fn accepted_shape(evs: Seq<SEv>, req_opts: Seq<TransferOption>, read_size: Option<u64>, ok: bool) -> bool {
    let n = n_handshake(req_opts, read_size);
    &&& evs.len() <= n + 1
    &&& (forall|i: int| 0 <= i < evs.len() && i < n ==> #[trigger] evs[i] is Sent)
    &&& (evs.len() == n + 1 ==> evs[n] is Spawned)
    &&& (ok ==> evs.len() == n + 1)
}

/// SPECIFICATION (C03): every transfer started for this request works on exactly `dir.join(convert(filename))`,
/// which is lexically confined to `dir`; an unconfined name is refused with ERROR 2 and starts nothing
pub open spec fn req_c03(evs: Seq<SEv>, kind: XferKind, dir: Seq<char>, filename: Seq<char>, to: std::net::SocketAddr) -> bool {
    let path = join_str(dir, convert_spec(filename));
    &&& (!path_confined(path, dir) ==> refusal(evs, ErrorCode::AccessViolation, to))
    &&& (forall|i: int| 0 <= i < evs.len() ==> (#[trigger] evs[i] matches SEv::Spawned { kind: k, path: p, .. } ==> k == kind && p == path && path_confined(path, dir)))
}

/// SPECIFICATION (C06): missing file on a read -> ERROR 1; existing file on a write without overwrite -> ERROR 6;
/// a refusal is the only effect (no transfer is started)
pub open spec fn req_c06(evs: Seq<SEv>, kind: XferKind, dir: Seq<char>, overwrite: bool, filename: Seq<char>, to: std::net::SocketAddr) -> bool {
    let path = join_str(dir, convert_spec(filename));
    path_confined(path, dir) ==> (match kind {
        XferKind::Send => !fs_exists(path) ==> refusal(evs, ErrorCode::FileNotFound, to),
        XferKind::Receive => fs_exists(path) && !overwrite ==> refusal(evs, ErrorCode::FileExists, to),
    })
}

/// the request is accepted (passes the C03 / C06 checks)
pub open spec fn req_accepted(kind: XferKind, dir: Seq<char>, overwrite: bool, filename: Seq<char>) -> bool {
    let path = join_str(dir, convert_spec(filename));
    path_confined(path, dir) && (match kind {
        XferKind::Send => fs_exists(path),
        XferKind::Receive => !fs_exists(path) || overwrite,
    })
}

/// SPECIFICATION (C09): an accepted request is answered with an OACK echoing its options (tsize = true file size on a
/// read) iff it has at least one; otherwise ACK 0 for a write and nothing for a read; the transfer is started with
/// exactly the requested values (RFC 1350 defaults otherwise), all within the honourable ranges; a request with a
/// value the server cannot honour is neither acknowledged nor started
pub open spec fn req_c09(evs: Seq<SEv>, kind: XferKind, req_opts: Seq<TransferOption>, read_size: Option<u64>, ok: bool) -> bool {
    let n = n_handshake(req_opts, read_size);
    &&& accepted_shape(evs, req_opts, read_size, ok)
    &&& (evs.len() >= n && n == 1 ==> handshake_ok(evs.subrange(0, 1), req_opts, read_size))
    &&& (!opts_valid(req_opts) ==> evs.len() == 0)
    &&& (forall|i: int| 0 <= i < evs.len() ==> (#[trigger] evs[i] matches SEv::Spawned { blk, tmo, ws, check, .. } ==>
            blk == settings_of(req_opts).blk && ws == settings_of(req_opts).ws && dur_nanos(tmo) == settings_of(req_opts).tmo_nanos
            && 8 <= blk <= 65464 && ws >= 1 && 1000000000 <= dur_nanos(tmo) <= 255 * 1000000000
            && (kind is Send ==> check == (req_opts.len() > 0))))
}

/// SPECIFICATION (C16): a started transfer repeats data-phase datagrams `dup + 1` times
pub open spec fn req_c16(evs: Seq<SEv>, dup: u8) -> bool {
    forall|i: int| 0 <= i < evs.len() ==> (#[trigger] evs[i] matches SEv::Spawned { rep, .. } ==> rep == dup + 1)
}
/// SPECIFICATION (C13): a started transfer uses the configured clean-on-error policy
pub open spec fn req_c13(evs: Seq<SEv>, clean: bool) -> bool {
    forall|i: int| 0 <= i < evs.len() ==> (#[trigger] evs[i] matches SEv::Spawned { clean: c, .. } ==> c == clean)
}
/// SPECIFICATION (C12, single-port mode): the listening socket's receive buffer is never smaller than the block size of a
/// transfer that has been started (it is shared by all running transfers, so it must never shrink)
pub open spec fn req_c12_buffer(evs: Seq<SEv>, single_port: bool, buffer: usize) -> bool {
    single_port ==> forall|i: int| 0 <= i < evs.len() ==> (#[trigger] evs[i] matches SEv::Spawned { blk, .. } ==> blk <= buffer)
}

pub struct ServerCfg { pub send_dir: Seq<char>, pub recv_dir: Seq<char>, pub read_only: bool, pub overwrite: bool, pub clean: bool, pub dup: u8 }

pub open spec fn req_read_size(kind: XferKind, dir: Seq<char>, filename: Seq<char>) -> Option<u64> {
    match kind { XferKind::Send => Some(fs_len(join_str(dir, convert_spec(filename)))), XferKind::Receive => None }
}

/// the datagram is a request of this kind (read-only servers do not treat WRQ as a request to handle)
pub open spec fn cur_request(cur: Option<(PktV, std::net::SocketAddr)>, c: ServerCfg) -> Option<(XferKind, Seq<char>, Seq<char>, Seq<TransferOption>, std::net::SocketAddr)> {
    match cur {
        Some((PktV::Rrq { filename, mode, options }, from)) => Some((XferKind::Send, c.send_dir, filename, options, from)),
        Some((PktV::Wrq { filename, mode, options }, from)) => if c.read_only { None } else { Some((XferKind::Receive, c.recv_dir, filename, options, from)) },
        _ => None,
    }
}

/// SPECIFICATION of the listener per received datagram, one predicate per property.
/// `cur` = the decoded datagram and its source (None: receive error or undecodable), `evs` = its effects.
pub open spec fn listen_c03(evs: Seq<SEv>, cur: Option<(PktV, std::net::SocketAddr)>, c: ServerCfg) -> bool {
    match cur_request(cur, c) {
        Some((kind, dir, filename, options, from)) => req_c03(evs, kind, dir, filename, from),
        None => forall|i: int| 0 <= i < evs.len() ==> !(#[trigger] evs[i] is Spawned),
    }
}
pub open spec fn listen_c06(evs: Seq<SEv>, cur: Option<(PktV, std::net::SocketAddr)>, c: ServerCfg) -> bool {
    match cur {
        Some((PktV::Wrq { .. }, from)) if c.read_only => refusal(evs, ErrorCode::AccessViolation, from),
        _ => match cur_request(cur, c) {
            Some((kind, dir, filename, options, from)) => req_c06(evs, kind, dir, c.overwrite, filename, from),
            None => true,
        },
    }
}
pub open spec fn listen_c09(evs: Seq<SEv>, cur: Option<(PktV, std::net::SocketAddr)>, c: ServerCfg) -> bool {
    match cur_request(cur, c) {
        Some((kind, dir, filename, options, from)) => req_accepted(kind, dir, c.overwrite, filename) ==>
            req_c09(evs, kind, options, req_read_size(kind, dir, filename), true) || req_c09(evs, kind, options, req_read_size(kind, dir, filename), false),
        None => forall|i: int| 0 <= i < evs.len() ==> !(#[trigger] evs[i] is Sent),
    }
}
pub open spec fn listen_c16(evs: Seq<SEv>, c: ServerCfg) -> bool { req_c16(evs, c.dup) }
pub open spec fn listen_c13(evs: Seq<SEv>, c: ServerCfg) -> bool { req_c13(evs, c.clean) }
/// C12: a well-formed non-request datagram is forwarded to the transfer owned by its own source endpoint and to nobody
/// else; an endpoint that owns no transfer (or whose transfer has ended) is answered with ERROR 4
pub open spec fn listen_c12(evs: Seq<SEv>, cur: Option<(PktV, std::net::SocketAddr)>, known: bool) -> bool {
    match cur {
        Some((PktV::Rrq { .. }, from)) => forall|i: int| 0 <= i < evs.len() ==> !(#[trigger] evs[i] is Routed),
        Some((PktV::Wrq { .. }, from)) => forall|i: int| 0 <= i < evs.len() ==> !(#[trigger] evs[i] is Routed),
        Some((p, from)) => (known && evs.len() == 1 && evs[0] == (SEv::Routed { pkt: p, to: from })) || refusal(evs, ErrorCode::IllegalOperation, from),
        None => true,
    }
}
/// C07 (single-port mode): an ERROR datagram from an endpoint that owns a transfer reaches that transfer (the worker ends on it)
/// unless that transfer has ended already; the listener never swallows it
pub open spec fn listen_c07(evs: Seq<SEv>, cur: Option<(PktV, std::net::SocketAddr)>, known: bool, single_port: bool) -> bool {
    match cur {
        Some((PktV::Error { code, msg }, from)) => single_port && known ==> (evs.len() == 1 && evs[0] == (SEv::Routed { pkt: PktV::Error { code, msg }, to: from }))
            || refusal(evs, ErrorCode::IllegalOperation, from),   // (the transfer's channel is closed: it has ended already)
        _ => true,
    }
}
/// C05 / C10: a datagram that cannot be received or decoded has no effect at all
pub open spec fn listen_c05(evs: Seq<SEv>, cur: Option<(PktV, std::net::SocketAddr)>) -> bool {
    cur is None ==> evs.len() == 0
}

// ---- command line configuration (C17) -------------------------------------------------------------

/// mathematical view of `Config`
pub struct ConfigV {
    pub ip: std::net::IpAddr, pub port: u16, pub dir: Seq<char>, pub rdir: Seq<char>, pub sdir: Seq<char>,
    pub single: bool, pub ro: bool, pub dup: u8, pub overwrite: bool, pub clean: bool,
}

pub enum CfgResult { Done(ConfigV), Fail, Help }

pub open spec fn is_flag(a: Seq<char>, short: Seq<char>, long: Seq<char>) -> bool { a == short || a == long }

/// SPECIFICATION (C17): the effect of the argument unit that starts at index i: `Some((config, next index))`, or
/// `None` for an error (unknown flag, missing or unparsable value, non-existent directory, duplicate-packets = 255)
pub open spec fn cfg_step(c: ConfigV, args: Seq<Seq<char>>, i: int) -> Option<(ConfigV, int)> {
    let a = args[i];
    let has_val = i + 1 < args.len();
    let v = args[i + 1];
    if is_flag(a, "-i"@, "--ip-address"@) {
        if has_val && parse_spec::<std::net::IpAddr>(v) is Some { Some((ConfigV { ip: parse_spec::<std::net::IpAddr>(v)->Some_0, ..c }, i + 2)) } else { None }
    } else if is_flag(a, "-p"@, "--port"@) {
        if has_val && parse_spec::<u16>(v) is Some { Some((ConfigV { port: parse_spec::<u16>(v)->Some_0, ..c }, i + 2)) } else { None }
    } else if is_flag(a, "-d"@, "--directory"@) {
        if has_val && fs_exists(v) { Some((ConfigV { dir: v, ..c }, i + 2)) } else { None }
    } else if is_flag(a, "-rd"@, "--receive-directory"@) {
        if has_val && fs_exists(v) { Some((ConfigV { rdir: v, ..c }, i + 2)) } else { None }
    } else if is_flag(a, "-sd"@, "--send-directory"@) {
        if has_val && fs_exists(v) { Some((ConfigV { sdir: v, ..c }, i + 2)) } else { None }
    } else if is_flag(a, "-s"@, "--single-port"@) {
        Some((ConfigV { single: true, ..c }, i + 1))
    } else if is_flag(a, "-r"@, "--read-only"@) {
        Some((ConfigV { ro: true, ..c }, i + 1))
    } else if a == "--duplicate-packets"@ {
        if has_val && parse_spec::<u8>(v) is Some && parse_spec::<u8>(v)->Some_0 != 255 { Some((ConfigV { dup: parse_spec::<u8>(v)->Some_0, ..c }, i + 2)) } else { None }
    } else if a == "--overwrite"@ {
        Some((ConfigV { overwrite: true, ..c }, i + 1))
    } else if a == "--keep-on-error"@ {
        Some((ConfigV { clean: false, ..c }, i + 1))
    } else {
        None
    }
}

/// receive / send directory fall back to the -d directory exactly when not given
pub open spec fn cfg_finalize(c: ConfigV) -> ConfigV {
    ConfigV { rdir: if c.rdir.len() == 0 { c.dir } else { c.rdir }, sdir: if c.sdir.len() == 0 { c.dir } else { c.sdir }, ..c }
}

/// SPECIFICATION (C17): server configuration = left fold of `cfg_step` over the argument units (so the last
/// occurrence of a flag wins), then the directory fall-back; `-h` prints the help and exits
pub open spec fn cfg_run(c: ConfigV, args: Seq<Seq<char>>, i: int) -> CfgResult
    decreases args.len() - i
{
    if i < 0 || i >= args.len() { CfgResult::Done(cfg_finalize(c)) }
    else if is_flag(args[i], "-h"@, "--help"@) { CfgResult::Help }
    else {
        match cfg_step(c, args, i) {
            Some((c2, i2)) => if i2 > i { cfg_run(c2, args, i2) } else { CfgResult::Fail },
            None => CfgResult::Fail,
        }
    }
}

/// distance on the wire from block number `bn` forward to `a`
pub open spec fn wdist(a: u16, bn: u16) -> int { (a as int - bn as int) % 65536 }

/// SPECIFICATION of the sender's retry counter: consecutive receive attempts that brought neither an
/// acknowledgement inside the window (resets it) nor an ERROR / acknowledgement outside it (unchanged).
pub open spec fn sender_fails_next(f: nat, v: Option<PktV>, bn: u16, len: nat) -> nat {
    match v {
        Some(PktV::Ack(a)) => if wdist(a, bn) < len { 0 } else { f },
        Some(PktV::Error { .. }) => f,
        _ => f + 1,
    }
}

/// an acknowledgement that does not acknowledge any block of the current window (duplicate / stale / bogus)
pub open spec fn is_stale_ack(v: Option<PktV>, bn: u16, len: nat) -> bool {
    len > 0 && (v matches Some(PktV::Ack(a)) && wdist(a, bn) >= len)
}

/// SPECIFICATION of what a receive attempt does to the sender's ghost state (woven behind every receive of `send_file`)
pub open spec fn sender_after_recv(t: Trace, v: Option<PktV>, bn: u16, elems: Seq<Seq<u8>>) -> Trace {
    Trace {
        last: v,
        fails: sender_fails_next(t.fails, v, bn, elems.len()),
        fresh: t.fresh || (v matches Some(PktV::Ack(a)) && wdist(a, bn) < elems.len()),
        snap_bn: bn, snap_elems: elems, snap_ev_len: t.ev.len(),
        handling: true,
        ..t
    }
}

pub open spec fn is_error_pkt(v: Option<PktV>) -> bool { v matches Some(PktV::Error { .. }) }

/// SPECIFICATION of the receiving side (woven behind every receive of `receive_file`): a DATA block is
/// accepted iff its number is the wire number of the next block in sequence; anything else changes nothing
/// but the bookkeeping (`reack`: must acknowledge again; `fails`: one more unusable receive).
pub open spec fn receiver_after_recv(t: Trace, v: Option<PktV>, blk: nat) -> Trace {
    match v {
        Some(PktV::Data { block_num, data }) =>
            if block_num == wire((t.accepted.len() + 1) as int) {
                Trace { last: v, accepted: t.accepted.push(data), fin: data.len() < blk, handling: true, silent: 0, ..t }
            } else {
                Trace { last: v, reack: true, handling: true, silent: 0, ..t }
            },
        Some(PktV::Error { .. }) => Trace { last: v, handling: true, silent: 0, ..t },
        Some(_) => Trace { last: v, fails: t.fails + 1, handling: true, silent: 0, ..t },
        None => Trace { last: v, fails: t.fails + 1, handling: true, silent: t.silent + 1, ..t },
    }
}

pub open spec fn all_acks(ev: Seq<PktV>, from: int) -> bool {
    forall|k: int| from <= k < ev.len() ==> #[trigger] ev[k] is Ack
}

pub proof fn lemma_all_acks_ext(ev: Seq<PktV>, from: int, p: Seq<PktV>, x: PktV, n: nat)
    requires all_acks(ev, from), x is Ack, is_prefix(p, rep(x, n)), 0 <= from <= ev.len(),
    ensures all_acks(ev + p, from), (ev + p).subrange(0, from) == ev.subrange(0, from),
{
    assert forall|k: int| from <= k < (ev + p).len() implies #[trigger] (ev + p)[k] is Ack by {
        if k >= ev.len() {
            assert((ev + p)[k] == p[k - ev.len()]);
            assert(p[k - ev.len()] == rep(x, n).subrange(0, p.len() as int)[k - ev.len()]);
        }
    }
    assert((ev + p).subrange(0, from) =~= ev.subrange(0, from));
}

/// SPECIFICATION (C01/C07): what the sending side may emit for a file `data` with block size `cs`:
/// DATA j carries wire(j) and exactly the bytes of piece j-1, 1 <= j <= nblocks; otherwise only ERROR.
pub open spec fn sender_ev_ok(e: PktV, data: Seq<u8>, cs: nat) -> bool {
    match e {
        PktV::Data { block_num, data: d } => exists|j: int| 1 <= j <= nblocks(data.len(), cs) && block_num == wire(j) && d == #[trigger] piece(data, cs, (j - 1) as nat),
        PktV::Error { .. } => true,
        _ => false,
    }
}

pub proof fn lemma_window_events_members(elems: Seq<Seq<u8>>, bn: u16, n: nat, k: int)
    requires 0 <= k < window_events(elems, bn, n).len(),
    ensures exists|i: int| 0 <= i < elems.len() && window_events(elems, bn, n)[k] == #[trigger] data_ev(bn, i, elems[i]),
    decreases elems.len(),
{
    if elems.len() > 0 {
        let pre = window_events(elems.drop_last(), bn, n);
        if k < pre.len() {
            lemma_window_events_members(elems.drop_last(), bn, n, k);
            let i = choose|i: int| 0 <= i < elems.drop_last().len() && pre[k] == #[trigger] data_ev(bn, i, elems.drop_last()[i]);
            assert(elems.drop_last()[i] == elems[i]);
            assert(window_events(elems, bn, n)[k] == data_ev(bn, i, elems[i]));
        } else {
            let i = elems.len() - 1;
            assert(window_events(elems, bn, n)[k] == data_ev(bn, i, elems[i]));
        }
    }
}

pub proof fn lemma_window_events_len(elems: Seq<Seq<u8>>, bn: u16, n: nat)
    ensures window_events(elems, bn, n).len() == elems.len() * n,
    decreases elems.len(),
{
    if elems.len() > 0 {
        lemma_window_events_len(elems.drop_last(), bn, n);
        lemma_mul_step((elems.len() - 1) as nat, n);
    } else {
        lemma_mul_step(0, n);
    }
}

pub proof fn lemma_wire_add(base: int, d: int)
    requires base >= 0, d >= 0,
    ensures wire(wire(base) + d) == wire(base + d), wire(wire(base + d) + 1) == wire(base + d + 1),
        d < 65536 ==> wdist(wire(base + d), wire(base)) == d,
{
    // stated through vstd's modular-arithmetic lemmas so that the proof does not depend on solver heuristics
    vstd::arithmetic::div_mod::lemma_mod_bound(base, 65536);
    vstd::arithmetic::div_mod::lemma_mod_bound(base + d, 65536);
    vstd::arithmetic::div_mod::lemma_add_mod_noop_right(d, base, 65536);
    assert(((base % 65536) + d) % 65536 == (base + d) % 65536);
    vstd::arithmetic::div_mod::lemma_add_mod_noop_right(1, base + d, 65536);
    assert((((base + d) % 65536) + 1) % 65536 == (base + d + 1) % 65536);
    if d < 65536 {
        vstd::arithmetic::div_mod::lemma_sub_mod_noop(base + d, base, 65536);
        vstd::arithmetic::div_mod::lemma_small_mod(d as nat, 65536);
        assert((((base + d) % 65536) - (base % 65536)) % 65536 == d);
    }
}

/// every datagram emitted from index `from` on is allowed by `sender_ev_ok` (body hidden from the
/// callers' queries; the lemmas below are its interface)
pub closed spec fn all_sender_ok(ev: Seq<PktV>, from: int, data: Seq<u8>, cs: nat) -> bool {
    forall|k: int| from <= k < ev.len() ==> sender_ev_ok(#[trigger] ev[k], data, cs)
}

pub proof fn lemma_all_sender_ok_intro(ev: Seq<PktV>, from: int, data: Seq<u8>, cs: nat)
    requires forall|k: int| from <= k < ev.len() ==> sender_ev_ok(#[trigger] ev[k], data, cs),
    ensures all_sender_ok(ev, from, data, cs),
{
}

/// a trace that grew by at most one ERROR datagram stays allowed
pub proof fn lemma_all_sender_ok_one_error(e: Seq<PktV>, old_ev: Seq<PktV>, data: Seq<u8>, cs: nat)
    requires
        e.len() <= old_ev.len() + 1, e.len() >= old_ev.len(),
        e.len() > old_ev.len() ==> e.last() is Error,
    ensures all_sender_ok(e, old_ev.len() as int, data, cs),
{
}

pub proof fn lemma_all_sender_ok_elim(ev: Seq<PktV>, from: int, data: Seq<u8>, cs: nat)
    requires all_sender_ok(ev, from, data, cs),
    ensures forall|k: int| from <= k < ev.len() ==> sender_ev_ok(#[trigger] ev[k], data, cs),
{
}

/// number of blocks a transfer of `len` bytes has with block size `cs` (the last one is short, possibly empty)
pub open spec fn nblocks(len: nat, cs: nat) -> nat { len / cs + 1 }

/// the i-th piece (0-based) of `data` cut into pieces of `cs` bytes; block number k carries piece(k-1)
pub open spec fn piece(data: Seq<u8>, cs: nat, i: nat) -> Seq<u8> {
    data.subrange((i * cs) as int, if (i + 1) * cs <= data.len() { ((i + 1) * cs) as int } else { data.len() as int })
}


/// concatenation of a sequence of byte strings
pub open spec fn flatten(s: Seq<Seq<u8>>) -> Seq<u8>
    decreases s.len()
{
    if s.len() == 0 { Seq::<u8>::empty() } else { flatten(s.drop_last()) + s.last() }
}

pub proof fn lemma_flatten_push(s: Seq<Seq<u8>>, x: Seq<u8>)
    ensures flatten(s.push(x)) == flatten(s) + x,
{
    assert(s.push(x).drop_last() =~= s);
}

/// `flatten` of a short literal list, unfolded (used by the packet encoders)
pub broadcast proof fn lemma_flatten_small(s: Seq<Seq<u8>>)
    requires s.len() <= 5,
    ensures
        s.len() == 1 ==> #[trigger] flatten(s) == s[0],
        s.len() == 2 ==> flatten(s) == s[0] + s[1],
        s.len() == 3 ==> flatten(s) == s[0] + s[1] + s[2],
        s.len() == 4 ==> flatten(s) == s[0] + s[1] + s[2] + s[3],
        s.len() == 5 ==> flatten(s) == s[0] + s[1] + s[2] + s[3] + s[4],
{
    reveal_with_fuel(flatten, 6);
    if s.len() >= 1 {
        let s1 = s.drop_last();
        if s.len() >= 2 {
            let s2 = s1.drop_last();
            if s.len() >= 3 {
                let s3 = s2.drop_last();
                if s.len() >= 4 {
                    let s4 = s3.drop_last();
                    if s.len() >= 5 { let s5 = s4.drop_last(); assert(flatten(s5) =~= Seq::<u8>::empty()); }
                }
            }
        }
        assert(flatten(s) =~= if s.len() == 1 { s[0] } else if s.len() == 2 { s[0] + s[1] } else if s.len() == 3 { s[0] + s[1] + s[2] }
            else if s.len() == 4 { s[0] + s[1] + s[2] + s[3] } else { s[0] + s[1] + s[2] + s[3] + s[4] });
    }
}

pub proof fn lemma_flatten_concat(a: Seq<Seq<u8>>, b: Seq<Seq<u8>>)
    ensures flatten(a + b) == flatten(a) + flatten(b),
    decreases b.len(),
{
    if b.len() == 0 {
        assert(a + b =~= a);
        assert(flatten(a) + flatten(b) =~= flatten(a));
    } else {
        lemma_flatten_concat(a, b.drop_last());
        assert((a + b).drop_last() =~= a + b.drop_last());
        assert((a + b).last() == b.last());
        assert(flatten(a) + (flatten(b.drop_last()) + b.last()) =~= (flatten(a) + flatten(b.drop_last())) + b.last());
    }
}

/// if `x` is `base + flatten(s[..i])` followed by a prefix of `s[i]`, it is `base` followed by a prefix of `flatten(s)`
pub proof fn lemma_prefix_step(x: Seq<u8>, base: Seq<u8>, s: Seq<Seq<u8>>, i: int)
    requires 0 <= i < s.len(), appended_prefix(x, base + flatten(s.subrange(0, i)), s[i]),
    ensures appended_prefix(x, base, flatten(s)),
{
    let k = choose|k: int| 0 <= k <= s[i].len() && x == (base + flatten(s.subrange(0, i))) + #[trigger] s[i].subrange(0, k);
    let pre = flatten(s.subrange(0, i));
    lemma_flatten_push(s.subrange(0, i), s[i]);
    assert(s.subrange(0, i).push(s[i]) =~= s.subrange(0, i + 1));
    lemma_flatten_concat(s.subrange(0, i + 1), s.subrange(i + 1, s.len() as int));
    assert(s.subrange(0, i + 1) + s.subrange(i + 1, s.len() as int) =~= s);
    let total = flatten(s);
    assert(total == (pre + s[i]) + flatten(s.subrange(i + 1, s.len() as int)));
    assert(total.subrange(0, pre.len() + k) =~= pre + s[i].subrange(0, k));
    assert(x =~= base + total.subrange(0, pre.len() + k));
}

/// a prefix-extension of `base + total` stays one when `total` grows at the end
pub proof fn lemma_prefix_widen(x: Seq<u8>, base: Seq<u8>, total: Seq<u8>, more: Seq<u8>)
    requires appended_prefix(x, base, total),
    ensures appended_prefix(x, base, total + more),
{
    let k = choose|k: int| 0 <= k <= total.len() && x == base + #[trigger] total.subrange(0, k);
    assert((total + more).subrange(0, k) =~= total.subrange(0, k));
}

pub proof fn lemma_prefix_full(x: Seq<u8>, base: Seq<u8>, total: Seq<u8>)
    requires x == base + total,
    ensures appended_prefix(x, base, total),
{
    assert(total.subrange(0, total.len() as int) =~= total);
}

/// writing (a prefix of) the buffered bytes keeps the file a prefix-extension of everything accepted
pub proof fn lemma_empty_keeps_prefix(stored: Seq<u8>, f0: Seq<u8>, acc: Seq<u8>, buffered: Seq<u8>)
    requires stored + buffered == f0 + acc, stored.len() >= f0.len(),
    ensures
        forall|y: Seq<u8>| #[trigger] appended_prefix(y, stored, buffered) ==> appended_prefix(y, f0, acc),
        appended_prefix(stored + buffered, f0, acc),
{
    assert((stored + buffered).len() == (f0 + acc).len());
    assert forall|y: Seq<u8>| #[trigger] appended_prefix(y, stored, buffered) implies appended_prefix(y, f0, acc) by {
        let k = choose|k: int| 0 <= k <= buffered.len() && y == stored + #[trigger] buffered.subrange(0, k);
        let m = stored.len() - f0.len() + k;
        assert((stored + buffered).len() == stored.len() + buffered.len());
        assert((f0 + acc).len() == f0.len() + acc.len());
        assert(stored.len() + buffered.len() == f0.len() + acc.len());
        assert(0 <= m <= acc.len());
        assert(y =~= f0 + acc.subrange(0, m)) by {
            assert((stored + buffered).subrange(0, stored.len() + k) =~= stored + buffered.subrange(0, k));
            assert((f0 + acc).subrange(0, stored.len() + k) =~= f0 + acc.subrange(0, m));
        }
    }
    assert(acc.subrange(0, acc.len() as int) =~= acc);
}

pub proof fn lemma_step(t: nat, cs: nat)
    requires cs > 0,
    ensures (t + 1) * cs == t * cs + cs, (t * cs + cs) / cs == t + 1, (t * cs) / cs == t,
{
    assert((t + 1) * cs == t * cs + cs) by(nonlinear_arith);
    assert(cs * t == t * cs) by(nonlinear_arith);
    assert(cs * (t + 1) == (t + 1) * cs) by(nonlinear_arith);
    vstd::arithmetic::div_mod::lemma_div_multiples_vanish(t as int, cs as int);
    vstd::arithmetic::div_mod::lemma_div_multiples_vanish((t + 1) as int, cs as int);
}

pub proof fn lemma_div_lower(len: nat, t: nat, cs: nat)
    requires cs > 0, t * cs <= len,
    ensures t <= len / cs,
{
    vstd::arithmetic::div_mod::lemma_div_is_ordered((t * cs) as int, len as int, cs as int);
    lemma_step(t, cs);
}

pub proof fn lemma_div_bounds(len: nat, t: nat, cs: nat)
    requires cs > 0, t * cs <= len, len < t * cs + cs,
    ensures len / cs == t,
{
    vstd::arithmetic::div_mod::lemma_fundamental_div_mod_converse(len as int, cs as int, t as int, (len - t * cs) as int);
}

} // verus!
