//! Ghost vocabulary shared by all contracts (woven into the scratch copy as `mod verif_spec`).
#![allow(missing_docs)]
use vstd::prelude::*;

verus! {

// ---------------------------------------------------------------------------------------------
// TRUSTED: specifications of std items (assumed, never proved)

#[verifier::external_trait_specification]
pub trait ExError: core::fmt::Debug + core::fmt::Display {
    type ExternalTraitSpecificationFor: core::error::Error;
}

} // verus!
