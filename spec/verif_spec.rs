//! Ghost vocabulary shared by all contracts (woven into the scratch copy as `mod verif_spec`).
//! Part 1 is TRUSTED (assumed specifications of std); part 2 is pure specification and proved lemmas.
#![allow(missing_docs)]
use vstd::prelude::*;
use std::collections::VecDeque;
use std::fs::File;

verus! {

// =============================================================================================
// PART 1 -- TRUSTED: specifications of std items (assumed, never proved)
// =============================================================================================

#[verifier::external_trait_specification]
pub trait ExError: core::fmt::Debug + core::fmt::Display {
    type ExternalTraitSpecificationFor: core::error::Error;
}

#[verifier::external_type_specification]
#[verifier::external_body]
pub struct ExFile(File);

#[verifier::external_type_specification]
#[verifier::external_body]
pub struct ExIoError(std::io::Error);

/// File model.  `file_data` is the content, `file_pos` the cursor of this handle.
pub uninterp spec fn file_data(f: File) -> Seq<u8>;
pub uninterp spec fn file_pos(f: File) -> nat;

/// ASSUMPTION "regular files do full reads": `read` returns min(buf.len, remaining) bytes taken at
/// the cursor and advances the cursor; the content is unchanged.  On error nothing is known about
/// the cursor, the content is unchanged.
pub assume_specification[ <File as std::io::Read>::read ](f: &mut File, buf: &mut [u8]) -> (r: Result<usize, std::io::Error>)
    ensures
        file_data(*final(f)) == file_data(*old(f)),
        final(buf)@.len() == old(buf)@.len(),
        r matches Ok(n) ==> {
            &&& file_pos(*old(f)) <= file_data(*old(f)).len()
            &&& n as nat == (if old(buf)@.len() <= file_data(*old(f)).len() - file_pos(*old(f)) { old(buf)@.len() as nat } else { (file_data(*old(f)).len() - file_pos(*old(f))) as nat })
            &&& file_pos(*final(f)) == file_pos(*old(f)) + n
            &&& final(buf)@.subrange(0, n as int) == file_data(*old(f)).subrange(file_pos(*old(f)) as int, file_pos(*old(f)) + n)
        };

/// project-local wrapper spec for `Write::write_all` on a File is given where it is used
/// (assume_specification of provided trait methods is rejected by Verus).

pub assume_specification<T, A: core::alloc::Allocator>[ VecDeque::<T, A>::is_empty ](v: &VecDeque<T, A>) -> (r: bool)
    ensures r == (v@.len() == 0);


#[verifier::external_type_specification]
#[verifier::external_body]
#[verifier::reject_recursive_types(T)]
#[verifier::reject_recursive_types(A)]
pub struct ExVecDequeDrain<'a, T: 'a, A: core::alloc::Allocator>(std::collections::vec_deque::Drain<'a, T, A>);

/// bounds denoted by a `RangeBounds` value (only `Range<usize>` is given a meaning, by the axiom below)
pub uninterp spec fn rb_start<R>(r: R) -> int;
pub uninterp spec fn rb_end<R>(r: R) -> int;
pub axiom fn axiom_range_bounds(r: core::ops::Range<usize>)
    ensures #![trigger rb_start(r)] #![trigger rb_end(r)] rb_start(r) == r.start, rb_end(r) == r.end;

/// ASSUMPTION: `drain(a..b)` followed by dropping the iterator removes exactly the elements a..b
/// (the removal is complete when the borrow ends).
pub assume_specification<T, A: core::alloc::Allocator, R: core::ops::RangeBounds<usize>>[ VecDeque::<T, A>::drain::<R> ](v: &mut VecDeque<T, A>, range: R) -> (r: std::collections::vec_deque::Drain<'_, T, A>)
    requires 0 <= rb_start(range) <= rb_end(range) <= old(v)@.len(),
    ensures final(v)@ == old(v)@.subrange(0, rb_start(range)) + old(v)@.subrange(rb_end(range), old(v)@.len() as int);

pub assume_specification<T>[ std::mem::drop ](_0: T) where T: std::marker::Destruct;

// =============================================================================================
// PART 2 -- pure specification vocabulary and proved lemmas
// =============================================================================================

/// number of blocks a transfer of `len` bytes has with block size `cs` (the last one is short, possibly empty)
pub open spec fn nblocks(len: nat, cs: nat) -> nat { len / cs + 1 }

/// the i-th piece (0-based) of `data` cut into pieces of `cs` bytes; block number k carries piece(k-1)
pub open spec fn piece(data: Seq<u8>, cs: nat, i: nat) -> Seq<u8> {
    data.subrange((i * cs) as int, if (i + 1) * cs <= data.len() { ((i + 1) * cs) as int } else { data.len() as int })
}


pub proof fn lemma_step(t: nat, cs: nat)
    requires cs > 0,
    ensures (t + 1) * cs == t * cs + cs, (t * cs + cs) / cs == t + 1, (t * cs) / cs == t,
{
    assert((t + 1) * cs == t * cs + cs) by(nonlinear_arith);
    assert(cs * t == t * cs) by(nonlinear_arith);
    assert(cs * (t + 1) == (t + 1) * cs) by(nonlinear_arith);
    vstd::arithmetic::div_mod::lemma_div_multiples_vanish(t as int, cs as int);
    vstd::arithmetic::div_mod::lemma_div_multiples_vanish((t + 1) as int, cs as int);
}

pub proof fn lemma_div_bounds(len: nat, t: nat, cs: nat)
    requires cs > 0, t * cs <= len, len < t * cs + cs,
    ensures len / cs == t,
{
    vstd::arithmetic::div_mod::lemma_fundamental_div_mod_converse(len as int, cs as int, t as int, (len - t * cs) as int);
}

} // verus!
