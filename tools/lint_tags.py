#!/usr/bin/env python3
"""lists contract clause lines (in @fn / @loop blocks) that carry no obligation tag of their own"""
import os, re, sys
sys.path.insert(0, os.path.dirname(os.path.abspath(__file__)))
import weave
d = os.path.join(os.path.dirname(os.path.abspath(__file__)), '..', 'contracts')
n = 0
for f in sorted(os.listdir(d)):
    if not f.endswith('.contract'):
        continue
    for b in weave.parse_sidecar(os.path.join(d, f)):
        if b.directive not in ('fn', 'loop'):
            continue
        if any('external_body' in l for l in b.lines):
            continue
        own = set()
        for k, l in enumerate(b.lines):
            if weave.TAG_RE.search(l):
                own.add(k)
        # lines covered backwards by an own tag (multi-line clause)
        covered = set(own)
        for k in own:
            j = k - 1
            while j >= 0 and j not in own and b.tags.get(j) == b.tags.get(k) and j not in covered:
                # was it claimed backwards?  (forward inheritance gives the PREVIOUS tag, so equality with k's tag means backward claim)
                covered.add(j)
                j -= 1
        sec = None
        for k, l in enumerate(b.lines):
            t = l.strip()
            if re.search(r'\brequires\b', t): sec = 'requires'
            if t.startswith('ensures'): sec = 'ensures'
            if t.startswith('invariant'): sec = 'invariant'
            if sec in ('ensures', 'invariant', 'requires') and k not in covered:
                code = re.sub(r'//.*$', '', t).strip()
                if code and not code.startswith(('requires', 'ensures', 'invariant', '#[', ')]', ')')) and not code.startswith('//'):
                    if sec == 'requires':
                        continue
                    print('%s:%d [%s %s] %s' % (f, b.sidecar_line + k, b.directive, b.args[:40], code[:110]))
                    n += 1
print(n, 'untagged clause lines')
