#!/usr/bin/env python3
"""Replay a violation file written by check.py: prints the failed obligation and the verifier's output, and -
where the witness finder knows scenarios for the property - drives the REAL code (replay crate) to look for a
concrete failing input.  exit 0 = nothing reproduced (or no scenario), exit 1 = a concrete failing run was shown."""
import json, os, subprocess, sys
HERE = os.path.dirname(os.path.abspath(__file__))
VERIF = os.path.dirname(HERE)

def main():
    path = sys.argv[1]
    r = json.load(open(path))
    print('property            :', r['property'])
    print('failed obligation   :', r['failed_obligation'])
    print('clause              :', r['obligation_clause'])
    print('function            : %s (%s)' % (r['function'], r['file']))
    print('verifier            :', r['verifier'])
    print('counterexample      :', r.get('counterexample') or 'none (Verus reports no model) -- no-failing-input-found unless the witness finder below finds one')
    for o in r['verifier_output']:
        print('--- verifier output ---')
        print(o.get('rendered') or o.get('message'))
    if r.get('replay_cmd'):
        print('--- re-running the bounded stand-in against the real code ---')
        p = subprocess.run(r['replay_cmd'], shell=True, env=dict(os.environ, CARGO_NET_OFFLINE='true'))
        sys.exit(1 if p.returncode == 1 else 0)
    wf = os.path.join(VERIF, 'replay')
    if r['property'] in ('C03', 'C05', 'C06', 'C09', 'C12'):
        print('--- witness finder: request catalogue against real servers on loopback (replay crate) ---')
        p = subprocess.run(['cargo', 'run', '--offline', '-q', '--release', '--bin', 'listener', '--', r['property']], cwd=wf, env=dict(os.environ, CARGO_NET_OFFLINE='true'))
        sys.exit(1 if p.returncode == 1 else 0)
    if r['property'] in ('C01', 'C02', 'C04', 'C07', 'C08', 'C13', 'C15', 'C16', 'C18'):
        print('--- witness finder: scripted-peer scenarios against the real Worker (replay crate) ---')
        p = subprocess.run(['cargo', 'run', '--offline', '-q', '--release', '--bin', 'scenarios', '--', r['property']], cwd=wf,
                           env=dict(os.environ, CARGO_NET_OFFLINE='true'))
        sys.exit(1 if p.returncode == 1 else 0)
    sys.exit(0)

if __name__ == '__main__':
    main()
