#!/usr/bin/env python3
"""Development-time self test: apply each catalogued property-breaking edit to a scratch copy of
/repo and report which properties the checks flag.  usage: selftest.py [name-substring]"""
import json, os, re, shutil, subprocess, sys
HERE = os.path.dirname(os.path.abspath(__file__))
VERIF = os.path.dirname(HERE)
CATALOGUE = os.path.join(VERIF, 'selftest', 'mutations.json')

def main():
    muts = json.load(open(CATALOGUE))
    flt = sys.argv[1] if len(sys.argv) > 1 else ''
    results = []
    for m in muts:
        if flt and flt not in m['name']:
            continue
        scratch = '/var/tmp/verif-selftest-%d' % os.getpid()
        shutil.rmtree(scratch, ignore_errors=True)
        os.makedirs(scratch)
        base = os.environ.get('SELFTEST_REPO', '/repo')
        shutil.copytree(os.path.join(base, 'src'), os.path.join(scratch, 'src'))
        for f in ('Cargo.toml', 'Cargo.lock'):
            shutil.copy(os.path.join(base, f), scratch)
        p = os.path.join(scratch, 'src', m['file'])
        s = open(p).read()
        if s.count(m['old']) != 1:
            print('%-40s SKIP: pattern occurs %d times' % (m['name'], s.count(m['old'])))
            shutil.rmtree(scratch)
            continue
        open(p, 'w').write(s.replace(m['old'], m['new']))
        env = dict(os.environ, VERIF_REPO=scratch, VERIF_SCRATCH=scratch + '/w')
        r = subprocess.run([sys.executable, os.path.join(HERE, 'check.py'), 'all', '--no-evidence'] + (['--standins'] if os.environ.get('SELFTEST_STANDINS') else []), env=env, stdout=subprocess.PIPE, stderr=subprocess.STDOUT, text=True)
        viol = sorted(set(re.findall(r'VIOLATION property=(\S+)', r.stdout)))
        obl = sorted(set(re.findall(r'obligation=(\S+)', r.stdout)))
        inc = 'INCONCLUSIVE' in r.stdout
        exp = m.get('expect', [])
        ok = all(e in viol for e in exp) and bool(viol)
        print('%-40s %s flagged=%s%s  obligations=%s' % (m['name'], 'CAUGHT' if ok else 'MISSED', ','.join(viol), ' (+inconclusive)' if inc else '', ','.join(obl)[:300]))
        if not ok:
            print('\n'.join('      ' + l for l in r.stdout.split('\n') if 'INCONCLUSIVE' in l)[:1500])
        results.append((m['name'], ok))
        shutil.rmtree(scratch, ignore_errors=True)
    print('%d/%d caught' % (sum(1 for _, ok in results if ok), len(results)))

if __name__ == '__main__':
    main()
