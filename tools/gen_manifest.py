#!/usr/bin/env python3
"""Writes /verif/MANIFEST.json from the table below (kept in one place so that the claims stay consistent)."""
import json, os
HERE = os.path.dirname(os.path.abspath(__file__))
VERIF = os.path.dirname(HERE)
COMMON_NOTE = ("Trusted base (listed verbatim in evidence coverage.trusted_base on every run): soundness of Verus 0.2026.09.13/Z3 "
               "(run with --no-trait-conflicts); assumed specifications of std (File read/write model, VecDeque::drain, slice/Vec/HashMap, "
               "Duration/Instant operators with a monotonic-clock model, paths as uninterpreted text, Display impls do not panic); project "
               "functions left external_body (UDP/ServerSocket impls, Server::new, thread wrappers Worker::send/receive, create_*_socket, "
               "convert_file_path, validate_file_path, Convert::to_string, Opcode/ErrorCode::as_bytes, serialize_data/serialize_ack). Normalisations N1 (destructuring "
               "assignment), N2 (lambda lifting of handle_wrq's closure), N3 (clone_from), N4 (elided 'static in const &str) are applied to the scratch copy and listed in "
               "the evidence. Partial correctness only (exec_allows_no_decreases_clause on the transfer loops, listen, parse_rq/oack). ")
C = {}
def claim(pid, text, note, technique, design):
    C[pid] = dict(text=text, note=COMMON_NOTE + note, technique=technique, design=design)

T = "Verus function contracts + loop invariants woven into the real source (weave.py); ghost emission trace; peer/network = havoc"
claim('C01', "Deductive proof (Verus) on the real Window::fill/remove, Worker::send_packet/send_window/send_file: every DATA datagram ever handed to the socket carries wire(j) and exactly piece j-1 of the file for a true index 1<=j<=nblocks, for all files, block sizes, window sizes, and for ALL receive results (each socket.recv() result is an unconstrained value, so every loss/duplication/reordering/bogus-ACK history is covered). The client-side reassembly argument (in-order acceptance + wire uniqueness inside one window) is a written argument in DESIGN.md, not machine-checked.",
      "Assumes regular files do full reads until EOF (File::read model) and that the worker wrapper opens the file at position 0.", T, "DESIGN.md 3, 4 C01")
claim('C02', "Deductive proof (Verus) on the real Window::add/empty and Worker::receive_file: the receiver specification (accept a DATA block iff its number is wire(count+1)) is woven behind every receive; invariants show file == f0 + flatten(accepted) whenever an ACK is emitted, the ACK number is wire(|accepted|), and the stored file equals the in-order blocks once each at successful return, for all arrival histories (receive results are havoc).",
      "Assumes write_all appends (on error: a prefix) and that the wrapper creates an empty file.", T, "DESIGN.md 4 C02")
claim('C03', "Deductive proof (Verus) of the flow: the only events that start a transfer (Worker::send/receive, the only code that touches files) are reached with path == dir.join(convert(filename)) that passed validate_file_path against the SAME directory (send dir for RRQ, receive dir for WRQ); an unconfined name is answered with ERROR 2 and starts nothing. The lexical meaning of std::path / str functions is ASSUMED (path_confined is uninterpreted); a bounded concrete enumeration of validate_file_path over a path-segment alphabet is run in the thorough tier and labelled bounded.",
      "validate_file_path and convert_file_path are external_body with assumed contracts; symlinks are outside the property.", "Verus postconditions over a ghost effect log of the listener", "DESIGN.md 4 C03")
claim('C04', "Deductive proof (Verus) of the per-role recovery obligations: sender retransmits the whole window exactly when the timeout has elapsed since the last transmission (and transmits a fresh window at once), retry counter == consecutive unusable receives < 6; receiver re-acknowledges the last in-sequence block whenever a non-sequential DATA block arrives, never discards buffered blocks on a timeout. Their composition into 'the transfer completes' is a written argument (DESIGN.md), not machine-checked: liveness of two parties is not a function contract.",
      "Liveness itself is not proved; only the local obligations are.", T, "DESIGN.md 4 C04")
claim('C05', "Deductive proof (Verus): for every received datagram and every Server state satisfying the representation invariant, one iteration of listen() (decode result is havoc; dispatch, handle_rrq, handle_wrq incl. the lifted closure, route_packet, parse_options, accept_request, check_file_exists) has no failing arithmetic, index, unwrap or callee precondition, re-establishes the invariant (duplicate_packets<255, largest_block_size<=65464, so the single-port buffer size+4 is bounded) and returns to the loop head; listen has postcondition false (never returns). Decoder panic-freedom (Packet::deserialize and parse_*) is proved for all byte strings.",
      "Stand-ins for violations found by the verifier: tools/check.py attaches a concrete failing run from the bounded witness finder (replay/src/bin/scenarios.rs) where it finds one. Not expressible: OS-level failures, panics inside the trusted I/O glue, printing to a closed stdout, allocation failure, worker threads.", "Verus panic-freedom obligations + representation invariant of Server", "DESIGN.md 4 C05")
claim('C06', "Deductive proof (Verus): the per-datagram decision table is a loop invariant of listen() over a ghost effect log: read-only + WRQ => exactly one ERROR 2 from the listening socket and nothing else; missing file on RRQ => exactly ERROR 1; existing target without overwrite => exactly ERROR 6; a refusal never coexists with a started transfer; handle_wrq has precondition !read_only.",
      "'No effect on disk' is represented as 'no Spawned event' because only workers touch files; File::create truncation is std behaviour; Path::exists is an uninterpreted oracle.", "Verus loop invariant over a ghost effect log", "DESIGN.md 4 C06")
claim('C07', "Deductive proof (Verus), safety part: send_file returns Ok only when the last receive was ACK(wire(nblocks)) and the window is exhausted, never emits a block beyond nblocks, returns Err as soon as a receive yields ERROR (no loop head is reached with last==ERROR), check_response stops the transfer on ERROR / ACK n!=0, retry counter invariant retry_cnt == consecutive failed receives < MAX_RETRIES (the loop cannot continue once it reaches 6); receive_file returns right after acknowledging the first short block. Termination against a peer that keeps sending stale ACKs is NOT claimed (true of the real code).",
      "Partial correctness only.", T, "DESIGN.md 4 C07")
claim('C08', "Deductive proof (Verus): window length <= windowsize at every transmission; cumulative ACK: after an accepted ACK the front is the block after it; every emission consumes a ghost credit that the contract grants only in front of send_window with the justification 'fresh window or (elapsed >= timeout measured on the stamp taken after the last transmission)'; an acknowledgement outside the current window changes nothing (block number, buffer, trace) and cannot be followed by an Err return, for every windowsize 1..65535; receiver: fewer than windowsize blocks buffered at every receive, ACK on full/short.",
      "Clock: Instant/Duration operations are assumed specifications over an uninterpreted monotonic-clock model.", T + "; ghost emission credit", "DESIGN.md 4 C08")
claim('C09', "Deductive proof (Verus): parse_options returns Ok exactly when every option value is honourable (blksize 8..65464, timeout 1..255, windowsize 1..65535), its WorkerOptions equal the last requested value per option or the RFC 1350 default, and the option list it rewrites equals the request's with tsize replaced by the file size on a read; accept_request emits OACK(options) iff the list is non-empty, else ACK 0 for a write and nothing for a read; handle_rrq/handle_wrq start the worker with exactly these values (postcondition over the Spawned event) and request check_response iff an OACK was sent. Decoder side: OptionType::from_str accepts exactly the four names.",
      "'The transfer uses the values' relies on C01/C08 being proved for arbitrary worker fields and on the trusted wrapper passing them on. Lower-casing (str::to_lowercase) is an uninterpreted function.", "Verus postconditions incl. prophetic &mut iteration", "DESIGN.md 4 C09")
claim('C10', "Deductive proof (Verus) that Packet::deserialize, parse_rq, parse_oack, parse_data, parse_ack, parse_error, Convert::to_u16, Opcode/ErrorCode::from_u16 never panic or index out of bounds for ANY byte string of any length, and reject short datagrams, unknown opcodes and error codes. Convert::to_string's contract is ASSUMED (iterator adapters / from_utf8 are outside Verus) and checked by a bounded exhaustive enumeration in the thorough tier (labelled bounded).",
      "Stability (decode-encode-decode) is covered only through C11's kinds.", "Verus panic-freedom + postconditions", "DESIGN.md 4 C10")
claim('C11', "Deductive proof (Verus) on the real code, both directions and their composition. ENCODERS: serialize_rrq/wrq/error/oack, TransferOption::as_bytes and Packet::serialize produce exactly enc(p), the RFC 1350/2347 layout as a spec function (00 op; strings as UTF-8 + NUL; options as name NUL decimal NUL in list order; big-endian numbers), for all strings and option lists (loop invariants, no bound). DECODER: returns exactly what the wire layout denotes for all six kinds (relation decodes_to; option loop by a continuation-style invariant; '(no message)' only when no NUL-terminated UTF-8 string follows). ROUND TRIP: lemma decodes_to(enc(p), q) ==> q == p for every packet whose strings are NUL-free (on their UTF-8 bytes), by induction over the option list with vstd's encode/decode_utf8 inverse lemmas. Opcode/ErrorCode::from_u16 accept exactly 1..6 / 0..7, value preserved; OptionType::as_str/from_str. to_be_bytes-based leaves (Opcode/ErrorCode::as_bytes, serialize_ack) are assumed in Verus and PROVED by complete (full-domain) Kani harnesses incl. ACK round trip for all u16; serialize_data's layout is assumed in Verus and checked only by the BOUNDED stand-in bounded_codec (all block numbers x payloads of length <= 3, 600 and 65464 bytes) - bounded, not proved. NOT PROVED: that deserialize returns Ok (rather than Err) on every RRQ/WRQ/ERROR/OACK encoding (proved for DATA/ACK); bounded_codec covers it on grammar-generated packets against an independent RFC encoder.",
      "Assumed std facts (axioms): [..].concat() on byte slices/vectors/2-arrays is concatenation; String::as_bytes is UTF-8 (vstd for str); usize::to_string yields decimal digits that parse::<usize> maps back; to_lowercase fixes lower-case ASCII; Convert::to_string contract (bounded stand-in, C10).", "Verus postconditions against a layout spec function + decoder relation + pure round-trip lemma; complete Kani harnesses for to_be_bytes leaves; bounded stand-in for serialize_data", "DESIGN.md 4 C11")
claim('C12', "Deductive proof (Verus) of the two dispatch clauses only: a well-formed non-request datagram is forwarded to clients[from] (its own source endpoint) and to no other channel, and a source that owns no transfer (or whose channel is closed) is answered with ERROR 4 from the listening socket; in single-port mode the listening socket's receive buffer, which all running transfers share, never shrinks and is at least the block size of every transfer started. Interleavings of K clients, per-transfer ephemeral ports, kernel filtering after connect() and thread scheduling are concurrency / OS behaviour outside contract-based verification and are NOT claimed.",
      "Only the per-datagram routing contract is decided; HashMap behaviour is vstd's model plus an assumed key model for SocketAddr.", "Verus postcondition of route_packet + listen invariant", "DESIGN.md 4 C12")
claim('C13', "Deductive proof (Verus) of clause 1 only: at every exit of receive_file the bytes written are f0 followed by a prefix of the concatenation of the accepted blocks (Window::empty contract incl. its error case; only empty writes), and the server starts every receive worker with the configured clean-on-error policy. The delete/keep decision in the thread wrapper Worker::receive is trusted glue (unverified); clause 2 (a stale worker must not delete a newer completed upload, defect D7) is a history over two threads and is a recorded known finding, not decided by this check.",
      "See known_findings.txt D7.", T, "DESIGN.md 4 C13, 6 D7")
claim('C15', "Deductive proof (Verus): all sender/receiver invariants are stated over true (unbounded) block indices with the code's u16 values related by wire(j) = j mod 65536; wrapping_add/wrapping_sub obligations are discharged for all values; an ACK is accepted only at wire distance < window length <= 65535, hence attributed to exactly one true index; no bound on the number of blocks.",
      "Inherent to 16-bit numbering: a datagram delayed by more than 65535 blocks is indistinguishable.", T, "DESIGN.md 4 C15")
claim('C16', "Deductive proof (Verus): send_packet emits exactly repeat_amount copies of the given packet back to back (loop invariant over the ghost trace), all data-phase emissions of send_file/receive_file go through it, handshake/refusal datagrams go through the leaf send once, and the server starts workers with repeat = duplicate_packets + 1 under the Server invariant duplicate_packets < 255.",
      "Config::new's rejection of 255 is covered by the C17 work (see evidence).", T, "DESIGN.md 4 C16")
claim('C17', "Deductive proof (Verus) that Config::new and ClientConfig::new compute exactly a left fold of a per-unit step function over the argument vector (flag + optional value; the real loop over a generic Iterator<Item=String> is related to the argument sequence through vstd's prophetic iterator specification): every error case of the statement yields Err, otherwise the configuration is the fold result, so the last occurrence of a flag wins; directory fall-back exactly when not given; documented defaults. On the specification itself (pure lemmas, also machine-checked): the outcome depends only on the remaining arguments, a unit assigns exactly one setting independently of the configuration so far, assignments to different settings commute, hence swapping two adjacent units of DIFFERENT flags never changes the outcome (order independence), and the defaults lemma.",
      "Value parsing (IpAddr, u16, u8, usize, u64), Path::exists and the current directory are uninterpreted functions of the argument text; Default impls are trusted (external_body) with the documented defaults as their contract; '-h' exits the process (no postcondition).", "Verus: loop invariant 'configuration so far == fold so far' + pure commutation lemmas on the fold", "DESIGN.md 4 C17")
claim('C18', "Deductive proof (Verus) of full-view contracts of every public Window operation on the real code: fill hands out exactly the next pieces of the file in order (representation invariant: buffer == contiguous run of pieces ending at the read position), never exceeds size, flags the end with the first short piece and adds nothing afterwards; remove(k) drops exactly the k oldest or fails unchanged; add fails exactly when full; empty appends all pieces in order and clears.",
      "File model and VecDeque::drain specification are assumed.", "Verus data-structure invariant + full-view postconditions", "DESIGN.md 3, 4 C18")

NA = {
 'C14': "two-process interoperability over UDP (IPv4/IPv6, both binaries) is outside contract-based verification of functions; no reduced client-side contracts are claimed yet",
}

def main():
    checks = []
    for pid in sorted(C):
        c = C[pid]
        checks.append({
            'property_id': pid,
            'quick_cmd': 'python3 tools/check.py %s --tier quick' % pid,
            'thorough_cmd': 'python3 tools/check.py %s --tier thorough' % pid,
            'evidence_file': '/verif/evidence/%s.json' % pid,
            'replay_cmd_template': 'python3 tools/replay.py {path}',
            'engine': 'verus-weave',
            'level_claimed': {'category': 'proof', 'text': c['text'], 'design_ref': c['design']},
            'level_note': c['note'],
            'technique': 'contract-based deductive verification: ' + c['technique'],
        })
    m = {
        'version': 1,
        'setup_cmd': 'cd /verif/replay && CARGO_NET_OFFLINE=true cargo build --offline -q 2>&1 | tail -3; true',
        'hooks': {
            'guard': 'none: /repo carries no hooks; contracts are woven into a scratch copy of /repo/src on every run (Verus sets cfg(verus_keep_ghost) inside that copy only)',
            'enable': 'python3 tools/check.py <ID> weaves /verif/contracts/*.contract into a scratch copy of /repo/src and runs verus on it',
            'baseline_off_cmd': 'cd /repo && cargo test --workspace --no-fail-fast --offline',
            'source_commits': [],
            'add_only': True,
        },
        'engines': [{'name': 'verus-weave', 'path': '/verif/tools/check.py', 'serves_properties': sorted(C),
                     'kind_free_text': 'weaver (insert-only annotation of the real source) + Verus 0.2026.09.13 + diagnostic-to-obligation attribution'}],
        'checks': checks,
        'notes': 'Genuine defects found and repaired in /repo (fix: commits) are recorded in /verif/known_findings.txt; see DESIGN.md section 6.',
        'not_applicable': [{'property_id': k, 'reason': v} for k, v in sorted(NA.items())],
    }
    json.dump(m, open(os.path.join(VERIF, 'MANIFEST.json'), 'w'), indent=1)
    print('MANIFEST.json: %d checks, %d not applicable' % (len(checks), len(NA)))

if __name__ == '__main__':
    main()
