"""Minimal Rust source scanner used by the weaver.

It does not parse Rust.  It masks comments / string / char literals, matches braces, and
locates items (struct / enum / trait / impl / fn / const), function bodies, loops and statements
by position.  Anything it cannot locate unambiguously is reported as an AnchorError, which the
runner turns into exit code 2 (inconclusive) -- never into a violation.
"""
import re


class AnchorError(Exception):
    pass


def mask(text):
    """Return a string of the same length where the contents of comments, string literals and
    char literals are replaced by spaces (newlines kept), so that braces / keywords can be
    searched safely."""
    out = list(text)
    i, n = 0, len(text)

    def blank(a, b):
        for k in range(a, b):
            if out[k] != '\n':
                out[k] = ' '

    while i < n:
        c = text[i]
        if c == '/' and i + 1 < n and text[i + 1] == '/':
            j = text.find('\n', i)
            if j < 0:
                j = n
            blank(i, j)
            i = j
        elif c == '/' and i + 1 < n and text[i + 1] == '*':
            depth, j = 1, i + 2
            while j < n and depth:
                if text.startswith('/*', j):
                    depth += 1
                    j += 2
                elif text.startswith('*/', j):
                    depth -= 1
                    j += 2
                else:
                    j += 1
            blank(i, j)
            i = j
        elif c == '"' or (c in 'br' and re.match(r'(b?r#*"|b")', text[i:i + 8]) and
                          (i == 0 or not (text[i - 1].isalnum() or text[i - 1] == '_'))):
            m = re.match(r'(b?)(r(#*))?"', text[i:])
            raw = m.group(2) is not None
            hashes = m.group(3) or ''
            j = i + m.end()
            if raw:
                end = text.find('"' + hashes, j)
                end = n if end < 0 else end
                blank(j, end)
                i = end + 1 + len(hashes)
            else:
                while j < n and text[j] != '"':
                    j += 2 if text[j] == '\\' else 1
                blank(i + m.end(), j)
                i = j + 1
        elif c == "'":
            # char literal or lifetime
            m = re.match(r"'(\\.[^']*|[^'\\])'", text[i:])
            if m:
                blank(i + 1, i + m.end() - 1)
                i += m.end()
            else:
                i += 1
        else:
            i += 1
    return ''.join(out)


def match_brace(masked, open_pos):
    assert masked[open_pos] == '{', masked[open_pos:open_pos + 20]
    depth = 0
    for k in range(open_pos, len(masked)):
        ch = masked[k]
        if ch == '{':
            depth += 1
        elif ch == '}':
            depth -= 1
            if depth == 0:
                return k
    raise AnchorError('unbalanced braces')


def line_start(text, pos):
    return text.rfind('\n', 0, pos) + 1


def line_end(text, pos):
    j = text.find('\n', pos)
    return len(text) if j < 0 else j + 1


def split_args(args):
    """split directive arguments on whitespace, keeping `<Trait for Type>::name` together"""
    out, i, n = [], 0, len(args)
    while i < n:
        if args[i].isspace():
            i += 1
            continue
        j = i
        if args[i] == '<':
            depth = 0
            while j < n:
                if args[j] == '<':
                    depth += 1
                elif args[j] == '>':
                    depth -= 1
                    if depth == 0:
                        j += 1
                        break
                j += 1
        while j < n and not args[j].isspace():
            j += 1
        out.append(args[i:j])
        i = j
    return out


def norm_ws(s):
    return re.sub(r'\s+', ' ', s).strip()


class Source:
    def __init__(self, text):
        self.text = text
        self.m = mask(text)
        self._impls = None

    # ---- items ----------------------------------------------------------------------------
    def impls(self):
        """list of (header, kw_pos, open, close) for impl and trait blocks (top level of file or
        of nested inline modules)"""
        if self._impls is None:
            res = []
            for mm in re.finditer(r'(?m)^[ \t]*((?:pub(?:\([a-z]+\))?\s+)?(?:unsafe\s+)?)(impl|trait)\b([^{;]*)\{', self.m):
                kw = mm.group(2)
                hdr = norm_ws(self.text[mm.start(3):mm.end(3)])
                if kw == 'impl':
                    hdr = re.sub(r'^<[^>]*(?:<[^>]*>[^>]*)*>\s*', '', hdr)  # drop generic params
                    hdr = re.sub(r'\s+where\b.*$', '', hdr)
                else:
                    hdr = re.sub(r'\s*:.*$', '', hdr)
                op = mm.end() - 1
                res.append((kw, hdr, mm.start() + len(mm.group(0)) - len(mm.group(0).lstrip()), op, match_brace(self.m, op)))
            self._impls = res
        return self._impls

    def find_block(self, kw, name):
        """impl / trait block whose (normalised) header is `name`; for impls also accepts the
        header with generic arguments stripped (e.g. `Worker` for `Worker<T>`)."""
        c = []
        for (k, hdr, kwpos, op, cl) in self.impls():
            if k != kw:
                continue
            bare = re.sub(r'<.*>', '', hdr).strip()
            if hdr == name or bare == name:
                c.append((kwpos, op, cl))
        return c

    def find_fn(self, path):
        """path: `name` (free fn), `Type::name` (inherent impl), `<Trait for Type>::name`,
        `trait Trait::name`.  returns (item_pos, sig_open_brace or None, close or None)"""
        scopes = []
        if '/' in path and not path.startswith('<'):
            outer, name = path.rsplit('/', 1)
            _, op, cl = self.find_fn(outer)
            scopes = [(op, cl)]
        elif path.startswith('<'):
            hdr, name = re.match(r'<(.*)>::(\w+)$', path).groups()
            scopes = [(op, cl) for (_, op, cl) in self.find_block('impl', hdr)]
        elif path.startswith('trait:'):
            hdr, name = re.match(r'trait:(\w+)::(\w+)$', path).groups()
            scopes = [(op, cl) for (_, op, cl) in self.find_block('trait', hdr)]
        elif '::' in path:
            hdr, name = path.rsplit('::', 1)
            scopes = [(op, cl) for (_, op, cl) in self.find_block('impl', hdr)]
        else:
            name = path
            scopes = [(-1, len(self.m))]
        if not scopes:
            raise AnchorError('no scope for fn %s' % path)
        found = []
        for (op, cl) in scopes:
            for mm in re.finditer(r'(?m)^[ \t]*((?:pub(?:\([a-z]+\))?\s+)?(?:const\s+)?(?:unsafe\s+)?fn)\s+' + re.escape(name) + r'\b', self.m[op + 1:cl]):
                pos = op + 1 + mm.start(1)
                if self.depth_between(op + 1, pos) != 0:
                    continue
                found.append(pos)
        if len(found) != 1:
            raise AnchorError('fn %s: %d matches' % (path, len(found)))
        pos = found[0]
        # body: first '{' or ';' at paren depth 0 after pos
        k, par = pos, 0
        while k < len(self.m):
            ch = self.m[k]
            if ch in '([':
                par += 1
            elif ch in ')]':
                par -= 1
            elif ch == ';' and par == 0:
                return (pos, None, k)
            elif ch == '{' and par == 0:
                return (pos, k, match_brace(self.m, k))
            k += 1
        raise AnchorError('fn %s: no body' % path)

    def depth_between(self, a, b):
        d = 0
        for ch in self.m[a:b]:
            if ch == '{':
                d += 1
            elif ch == '}':
                d -= 1
        return d

    def find_item(self, kind, name):
        """struct / enum / const / trait / impl / type item position (of its first keyword incl. pub)"""
        if kind in ('impl', 'trait'):
            c = self.find_block(kind, name)
            if len(c) != 1:
                raise AnchorError('%s %s: %d matches' % (kind, name, len(c)))
            return c[0][0]
        pat = r'(?m)^[ \t]*((?:pub(?:\([a-z]+\))?\s+)?' + kind + r')\s+' + re.escape(name) + r'\b'
        c = [mm.start(1) for mm in re.finditer(pat, self.m)]
        if len(c) != 1:
            raise AnchorError('%s %s: %d matches' % (kind, name, len(c)))
        return c[0]

    def attr_start(self, pos):
        """position of the start of the line on which the item keyword at `pos` starts (the
        insertion point for attributes: after doc comments / existing attributes)."""
        return line_start(self.text, pos)

    # ---- inside functions -------------------------------------------------------------------
    def loops(self, op, cl):
        """[(kind, pos)] of loop keywords in body (op, cl), in textual order"""
        res = []
        for mm in re.finditer(r'\b(loop|while|for)\b', self.m[op:cl]):
            pos = op + mm.start()
            kw = mm.group(1)
            # exclude `for` of HRTB / impl-for: inside fn bodies a loop `for` is followed by a pattern and ` in `
            if kw == 'for':
                rest = self.m[pos:cl]
                br = rest.find('{')
                if br < 0 or not re.search(r'\bin\b', rest[:br]):
                    continue
            res.append((kw, pos))
        return res

    def find_loop(self, fnpath, spec):
        kind, idx = re.match(r'(loop|while|for)#(\d+)$', spec).groups()
        _, op, cl = self.find_fn(fnpath)
        if op is None:
            raise AnchorError('fn %s has no body' % fnpath)
        ls = [p for (k, p) in self.loops(op, cl) if k == kind]
        if int(idx) < 1 or int(idx) > len(ls):
            raise AnchorError('fn %s: loop %s not found (%d %s-loops)' % (fnpath, spec, len(ls), kind))
        return ls[int(idx) - 1]

    def find_stmt(self, fnpath, regex, count='1'):
        """positions of regex matches (in code, not in comments/strings) within fn body"""
        _, op, cl = self.find_fn(fnpath)
        if op is None:
            raise AnchorError('fn %s has no body' % fnpath)
        res = []
        for mm in re.finditer(regex, self.text[op:cl], re.M):
            a = op + mm.start()
            if self.m[a] != self.text[a]:
                continue  # inside comment / string
            res.append((a, op + mm.end()))
        if count.startswith('#'):
            k = int(count[1:])
            if k < 1 or k > len(res):
                raise AnchorError('fn %s: /%s/ matched %d times, match %s requested' % (fnpath, regex, len(res), count))
            return [res[k - 1]]
        if count == 'all':
            if not res:
                raise AnchorError('fn %s: /%s/ not found' % (fnpath, regex))
        elif count == 'any':
            pass
        elif len(res) != int(count):
            raise AnchorError('fn %s: /%s/ matched %d times, expected %s' % (fnpath, regex, len(res), count))
        return res

    def call_args(self, open_paren):
        """[(start, end)] of the top-level arguments of the call whose '(' is at open_paren"""
        d, k, res, a = 0, open_paren, [], open_paren + 1
        while k < len(self.m):
            ch = self.m[k]
            if ch in '([{':
                d += 1
            elif ch in ')]}':
                d -= 1
                if d == 0:
                    if self.text[a:k].strip():
                        res.append((a, k))
                    return res
            elif ch == ',' and d == 1:
                res.append((a, k))
                a = k + 1
            k += 1
        raise AnchorError('unbalanced call')

    def stmt_end(self, pos):
        """end (exclusive, after the newline) of the statement containing pos: the first ';' at
        relative nesting depth 0, or the closing brace of a block-statement, whichever first."""
        d = 0
        k = pos
        while k < len(self.m):
            ch = self.m[k]
            if ch in '([{':
                d += 1
            elif ch in ')]}':
                d -= 1
                if d < 0:
                    return line_start(self.text, k)
                if d == 0 and ch == '}':
                    # block statement (if / match / loop): ends here unless followed by else / ; / .
                    rest = self.m[k + 1:k + 40].lstrip()
                    if rest.startswith('else') or rest.startswith(';') or rest.startswith('.') or rest.startswith('?'):
                        k += 1
                        continue
                    return line_end(self.text, k)
            elif ch == ';' and d == 0:
                return line_end(self.text, k)
            k += 1
        raise AnchorError('statement end not found')

    def fn_spans(self):
        """[(name, start, end)] for every fn with a body, for attribution of diagnostics"""
        res = []
        for mm in re.finditer(r'\bfn\s+(\w+)', self.m):
            k, par = mm.end(), 0
            while k < len(self.m):
                ch = self.m[k]
                if ch in '([':
                    par += 1
                elif ch in ')]':
                    par -= 1
                elif ch == ';' and par == 0:
                    break
                elif ch == '{' and par == 0:
                    res.append((mm.group(1), mm.start(), match_brace(self.m, k)))
                    break
                k += 1
        return res
