#!/bin/sh
# development helper: weave + verus with human-readable output.  usage: tools/dev.sh [extra verus args]
D=${VERIF_DEV:-/var/tmp/vdev}
mkdir -p $D
python3 /verif/tools/weave.py --repo ${VERIF_REPO:-/repo}/src --out $D/woven > $D/weave.log || { cat $D/weave.log; exit 2; }
cd $D/woven && verus --crate-type=lib lib.rs --no-trait-conflicts --cfg 'feature="client"' --multiple-errors 5 --num-threads 16 "$@" 2>&1 | grep -v "^warning: unused\|^note: verus is" 
