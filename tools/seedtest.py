#!/usr/bin/env python3
"""Applies every seeded change under /verif/seeded/*/patch.diff to /repo (git apply), runs the checks, undoes it
(git checkout -- .) and reports which properties / obligations raised an alarm.  Writes seeded/RESULTS.md."""
import json, os, re, subprocess, sys
HERE = os.path.dirname(os.path.abspath(__file__))
VERIF = os.path.dirname(HERE)

def sh(cmd, **kw):
    return subprocess.run(cmd, shell=True, stdout=subprocess.PIPE, stderr=subprocess.STDOUT, text=True, **kw)

def main():
    flt = sys.argv[1] if len(sys.argv) > 1 else ''
    rows = []
    if sh('git -C /repo status --porcelain -- src').stdout.strip():
        print('refusing: /repo/src has uncommitted changes'); sys.exit(2)
    for d in sorted(os.listdir(os.path.join(VERIF, 'seeded'))):
        p = os.path.join(VERIF, 'seeded', d, 'patch.diff')
        if not os.path.exists(p) or flt not in d:
            continue
        meta = json.load(open(os.path.join(VERIF, 'seeded', d, 'meta.json'))) if os.path.exists(os.path.join(VERIF, 'seeded', d, 'meta.json')) else {}
        target = meta.get('property', d.split('-')[1])
        a = sh('git -C /repo apply %s' % p)
        try:
            if a.returncode != 0:
                rows.append((d, target, 'PATCH DOES NOT APPLY', '', ''))
                continue
            r = sh('python3 %s/check.py all --no-evidence-files' % HERE if False else 'python3 %s/check.py all' % HERE, cwd=VERIF)
        finally:
            sh('git -C /repo checkout -- .')
        viol = sorted(set(re.findall(r'VIOLATION property=(\S+)', r.stdout)))
        obls = sorted(set(re.findall(r'(?:obligation|stand-in|kani-harness)=(\S+)', r.stdout)))
        wit = 'concrete input' if re.search(r'VIOLATION property=%s .*?(witness:|stand-in=|kani-harness=)' % target, r.stdout) else ('no-failing-input-found' if target in viol else '')
        rows.append((d, target, 'CAUGHT' if target in viol else ('inconclusive' if 'INCONCLUSIVE' in r.stdout else 'MISSED'), ','.join(viol), wit + ' | ' + ','.join(obls)[:160]))
        print('%-10s target=%s %-12s flagged=%s  %s' % rows[-1])
    # restore evidence for the unchanged tree
    sh('python3 %s/check.py all' % HERE, cwd=VERIF)
    res = os.path.join(VERIF, 'seeded', 'RESULTS.md')
    if flt and os.path.exists(res):
        # a partial run: keep the rows of the seeds that were not re-run
        done = {r[0] for r in rows}
        for l in open(res):
            m = re.match(r'\| (S-\S+) \| (\S+) \| ([^|]+) \| ([^|]*) \| (.*) \|\s*$', l)
            if m and m.group(1) not in done:
                rows.append(tuple(x.strip() for x in m.groups()))
        rows.sort()
    with open(res, 'w') as f:
        f.write('| seed | target property | result | properties flagged | how |\n|---|---|---|---|---|\n')
        for r in rows:
            f.write('| %s | %s | %s | %s | %s |\n' % r)
        f.write('\n(tools/seedtest.py: every patch applied to /repo, all checks run in the quick tier, patch undone)\n')
    print('%d/%d caught' % (sum(1 for r in rows if r[2] == 'CAUGHT'), len(rows)))

if __name__ == '__main__':
    main()
