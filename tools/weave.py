"""Weaver: copies /repo/src into a scratch directory and inserts contract text from the sidecar
files /verif/contracts/*.contract.  It only INSERTS text (whole lines, or inline text without a
newline); the few normalisations (N1..N3, see DESIGN.md 2.2) are applied first, line for line, and are
reported.  The self-check removes every inserted span again and demands byte equality with the
normalised source.

Sidecar syntax (one file per source file, name <file>.contract):

  ## comment
  @crate-attrs                      text inserted at the very top of the file
  @top                              text inserted before the first non-attribute, non-comment line
  @append                           text appended to the file
  @item <struct|enum|const|impl|trait|type> <name>
  @fn <path> [nopanic=C05,C10]      attributes before the fn; `nopanic=` tags the function's implicit
                                    obligation (no failing arithmetic / index / unwrap / callee precondition)
  @loop <fnpath> <loop|while|for>#<n>
  @before <fnpath> /regex/ [count]  whole lines before the line containing the match
  @after <fnpath> /regex/ [count]   whole lines after the statement containing the match
  @inline <fnpath> /regex/ [count]  text (joined on one line) directly before the match
  @inline-after <fnpath> /regex/ [count]  text (joined on one line) directly after the match
  @body-start <fnpath>              whole lines directly after the opening brace line of the fn
  @loop-body <fnpath> <kind>#<n>    whole lines directly after the opening brace line of the loop body
  @loop-end <fnpath> <kind>#<n>     whole lines directly before the closing brace line of the loop body
  @after-loop <fnpath> <kind>#<n>   whole lines directly after the closing brace line of the loop
  @wrap-arg <fnpath> /regex(/ <count> <i>   wraps argument i of the matched call: prefix text, a line `---`, suffix text;
                                    `$ARGn` in the text stands for the source text of argument n; a leading `&` of the
                                    argument stays outside the wrapper unless <i> is written `<i>&`

A content line may end with `//@ <obligation-id> [C01,C02]`: that line and the following lines of the
block (until the next tag) belong to the named obligation.
"""
import json
import os
import re
import shutil
import sys

sys.path.insert(0, os.path.dirname(os.path.abspath(__file__)))
from rustscan import Source, AnchorError, line_start, line_end, split_args  # noqa: E402

TAG_RE = re.compile(r'//@\s*([\w.\-]+)\s*\[([A-Z0-9, ]*)\]\s*$')


class Block:
    def __init__(self, bid, directive, args, lines, sidecar, sidecar_line):
        self.bid = bid
        self.directive = directive
        self.args = args
        self.lines = lines            # content lines (without newline)
        self.sidecar = sidecar
        self.sidecar_line = sidecar_line  # line number in the sidecar of first content line
        self.tags = {}                # offset -> (oblig id, [props])
        cur = None
        own = {}
        for k, l in enumerate(lines):
            m = TAG_RE.search(l)
            if m:
                cur = (m.group(1), [p.strip() for p in m.group(2).split(',') if p.strip()])
                own[k] = cur
            if cur and directive not in ('fn', 'loop'):
                # hint blocks: a tag covers the following lines of the block too.  Contract blocks (@fn / @loop):
                # a tag covers only its own clause; untagged clauses are auxiliary (frame / bookkeeping) and are
                # attributed to the function's general obligation by the runner.
                self.tags[k] = cur
            elif m:
                self.tags[k] = cur
        # a tag at the END of a multi-line clause also covers the clause's earlier lines: walk back while the
        # parentheses / brackets / braces of the tagged line are not yet balanced
        def bal(l):
            code = re.sub(r'//.*$', '', l)
            return sum(code.count(c) for c in '([{') - sum(code.count(c) for c in ')]}')
        for k, t in own.items():
            depth = bal(lines[k])
            j = k - 1
            def continues(l):
                code = re.sub(r'//.*$', '', l).rstrip()
                return code.endswith(('==>', '&&', '||', '<==>', '==', '+', '='))
            while j >= 0 and j not in own and (depth < 0 or continues(lines[j])):
                self.tags[j] = t
                depth += bal(lines[j])
                j -= 1


def parse_sidecar(path):
    blocks = []
    cur = None
    with open(path) as f:
        for n, raw in enumerate(f, 1):
            line = raw.rstrip('\n')
            if line.startswith('##'):
                continue
            if line.startswith('@'):
                parts = line.split(None, 1)
                cur = Block(len(blocks), parts[0][1:], parts[1].strip() if len(parts) > 1 else '', [], path, n + 1)
                blocks.append(cur)
            elif cur is not None:
                cur.lines.append(line)
    for b in blocks:
        while b.lines and not b.lines[-1].strip():
            b.lines.pop()
        # re-tag after trimming
        b.__init__(b.bid, b.directive, b.args, b.lines, b.sidecar, b.sidecar_line)
    return blocks


# ---------------------------------------------------------------------------------------------
# normalisations (line for line; the number of lines never changes)

N1_RE = re.compile(r'^(\s*)\((\w+), (\w+)\) = (.+);\s*$')
N4_RE = re.compile(r"^(\s*(?:pub(?:\([a-z]+\))?\s+)?const\s+\w+\s*:\s*)&(?!'static)(.*)$")
N3_RE = re.compile(r'^(\s*)([\w.]+)\.clone_from\(&([\w.]+)\);\s*$')
N5_RE = re.compile(r'^(\s*)let _ = (\w+)\.join\(\);\s*$')
N6_RE = re.compile(r'\(\|_\|')
N7_RE = re.compile(r'\bIpv([46])Addr::UNSPECIFIED\b')


# N2: lambda lifting of the one closure that captures `&mut self` (Verus has no such closures).  The closure
# `let NAME = &mut || -> R {` ... `};` becomes a nested fn `fn NAME(this: &mut Server, <captures>) -> R {` ... `}`
# (line for line: `self.` -> `this.` inside it) and every call `NAME()` becomes `NAME(self, <captures>)`.
# A wrong capture list does not type-check, which the runner reports as inconclusive (exit 2).
N2_RULES = {
    'server.rs': {
        'name': 'initialize_write',
        'open': re.compile(r'^(\s*)let initialize_write = &mut \|([^|]*)\| -> Result<\(\), Box<dyn Error>> \{\s*$'),
        'params': 'this: &mut Server, options: &mut [TransferOption], to: &SocketAddr, file_path: &PathBuf',
        'args': 'self, options, to, file_path',
        # other variables of the enclosing function: passed as well when the closure body mentions them
        'optional': [('filename', 'filename: &String', '&filename')],
    },
}


def _n2_effective(rule, text):
    """the rule with the optional captures that the closure body really uses"""
    lines = text.split('\n')
    for i, line in enumerate(lines):
        m = rule['open'].match(line)
        if m:
            ind = m.group(1)
            body = []
            for l in lines[i + 1:]:
                if l == ind + '};':
                    break
                body.append(l)
            body = '\n'.join(body)
            r = dict(rule)
            for (name, param, arg) in rule.get('optional', []):
                if re.search(r'\b%s\b' % name, body):
                    r['params'] += ', ' + param
                    r['args'] += ', ' + arg
            return r
    return rule


def normalise(fname, text):
    out, notes = [], []
    n2 = N2_RULES.get(fname)
    if n2:
        n2 = _n2_effective(n2, text)
    n2_indent = None
    for n, line in enumerate(text.split('\n'), 1):
        if n2:
            m = n2['open'].match(line)
            if m and n2_indent is None:
                n2_indent = m.group(1)
                own = m.group(2).strip()
                new = '%sfn %s(%s%s) -> Result<(), Box<dyn Error>> {' % (n2_indent, n2['name'], n2['params'], (', ' + own) if own else '')
                notes.append({'file': fname, 'line': n, 'rule': 'N2 lambda lifting (closure head)', 'from': line.strip(), 'to': new.strip()})
                line = new
            elif n2_indent is not None and n2_indent != 'done':
                if line == n2_indent + '};':
                    notes.append({'file': fname, 'line': n, 'rule': 'N2 lambda lifting (closure end)', 'from': '};', 'to': '}'})
                    line = n2_indent + '}'
                    n2_indent = 'done'
                elif 'self.' in line or '&self' in line:
                    new = re.sub(r'\bself\b', 'this', line)
                    notes.append({'file': fname, 'line': n, 'rule': 'N2 lambda lifting (self -> this)', 'from': line.strip(), 'to': new.strip()})
                    line = new
            elif n2_indent == 'done' and re.search(r'\b%s\(' % n2['name'], line):
                new = re.sub(r'\b%s\(\s*\)' % n2['name'], '%s(%s)' % (n2['name'], n2['args']), line)
                new = re.sub(r'\b%s\((?!%s)' % (n2['name'], re.escape(n2['args'])), '%s(%s, ' % (n2['name'], n2['args']), new)
                notes.append({'file': fname, 'line': n, 'rule': 'N2 lambda lifting (call)', 'from': line.strip(), 'to': new.strip()})
                line = new
        m = N1_RE.match(line)
        if m and fname == 'packet.rs':
            ind, a, b, e = m.groups()
            new = '%slet (n1_a, n1_b) = %s; %s = n1_a; %s = n1_b;' % (ind, e, a, b)
            notes.append({'file': fname, 'line': n, 'rule': 'N1 destructuring assignment', 'from': line.strip(), 'to': new.strip()})
            line = new
        m = N4_RE.match(line)
        if m:
            new = m.group(1) + "&'static " + m.group(2)
            notes.append({'file': fname, 'line': n, 'rule': "N4 elided 'static lifetime in a const item made explicit", 'from': line.strip(), 'to': new.strip()})
            line = new
        m = N5_RE.match(line)
        if m:
            new = '%scrate::verif_spec::join_and_ignore(%s);' % (m.group(1), m.group(2))
            notes.append({'file': fname, 'line': n, 'rule': 'N5 `let _ = h.join();` moved into a one-line trusted helper (Verus cannot type Box<dyn Any + Send>)', 'from': line.strip(), 'to': new.strip()})
            line = new
        if N7_RE.search(line) and fname == 'client.rs':
            new = N7_RE.sub(lambda m: 'crate::verif_spec::ipv%s_unspecified()' % m.group(1), line)
            notes.append({'file': fname, 'line': n, 'rule': 'N7 associated constant of an external type read through a one-line trusted helper (Verus cannot specify such constants)', 'from': line.strip(), 'to': new.strip()})
            line = new
        if N6_RE.search(line):
            new = N6_RE.sub('(|_verif_ignored|', line)
            notes.append({'file': fname, 'line': n, 'rule': 'N6 closure parameter `_` given a name', 'from': line.strip(), 'to': new.strip()})
            line = new
        m = N3_RE.match(line)
        if m:
            ind, x, y = m.groups()
            new = '%s%s = %s.clone();' % (ind, x, y)
            notes.append({'file': fname, 'line': n, 'rule': 'N3 clone_from', 'from': line.strip(), 'to': new.strip()})
            line = new
        out.append(line)
    return '\n'.join(out), notes


# ---------------------------------------------------------------------------------------------

def split_regex_args(args):
    fn = split_args(args)[0]
    m = re.match(r'\s*/(.*)/\s*(\S+)?\s*$', args[len(fn):])
    if not m:
        raise AnchorError('bad anchor syntax: %s' % args)
    return fn, m.group(1), (m.group(2) or '1')


def plan_insertions(src, blocks, lost=None):
    """returns list of (pos, kind, block) with kind in {'lines','inline'}; pos for 'lines' is a line start.
    If `lost` is a list, anchor errors are collected there as (block, message) instead of being raised."""
    ins = []
    for b in blocks:
        try:
            ins += _plan_block(src, b)
        except AnchorError as ex:
            if lost is None:
                raise
            lost.append((b, str(ex)))
    return ins


def _plan_block(src, b):
    ins = []
    text = src.text
    if True:
        d = b.directive
        if d == 'crate-attrs':
            ins.append((0, 'lines', b))
        elif d == 'top':
            pos = 0
            for mm in re.finditer(r'(?m)^.*$', text):
                s = mm.group(0).strip()
                if s == '' or s.startswith('//') or s.startswith('#!['):
                    continue
                pos = mm.start()
                break
            ins.append((pos, 'lines', b))
        elif d == 'append':
            ins.append((len(text), 'lines', b))
        elif d == 'item':
            kind, name = b.args.split(None, 1)
            pos = src.find_item(kind, name.strip())
            ins.append((src.attr_start(pos), 'lines', b))
        elif d == 'fn':
            path = split_args(b.args)[0]
            pos, _, _ = src.find_fn(path)
            ins.append((src.attr_start(pos), 'lines', b))
        elif d == 'loop':
            fnpath, spec = split_args(b.args)
            pos = src.find_loop(fnpath, spec)
            ls = line_start(text, pos)
            if text[ls:pos].strip() == '':
                ins.append((ls, 'lines', b))
            else:
                ins.append((pos, 'inline', b))
        elif d in ('before', 'after', 'inline', 'inline-after'):
            fnpath, rx, count = split_regex_args(b.args)
            for (a, e) in src.find_stmt(fnpath, rx, count):
                if d == 'before':
                    ins.append((line_start(text, a), 'lines', b))
                elif d == 'after':
                    ins.append((src.stmt_end(line_start(text, a)), 'lines', b))
                elif d == 'inline-after':
                    ins.append((e, 'inline', b))
                else:
                    ins.append((a, 'inline', b))
        elif d == 'wrap-arg':
            # @wrap-arg <fn> /regex ending in the call's '('/ <count> <argidx>   content: prefix lines, '---', suffix lines
            toks = split_args(b.args)
            fnpath = toks[0]
            m = re.match(r'\s*/(.*)/\s*(\S+)\s+(\d+)(&?)\s*$', b.args[len(fnpath):])
            if not m:
                raise AnchorError('bad wrap-arg syntax: %s' % b.args)
            rx, count, argidx, keep_ref = m.group(1), m.group(2), int(m.group(3)), m.group(4) == '&'
            sep = b.lines.index('---')
            for (a, e) in src.find_stmt(fnpath, rx, count):
                if text[e - 1] != '(':
                    raise AnchorError('wrap-arg regex must end at the opening parenthesis: %s' % rx)
                args = src.call_args(e - 1)
                if argidx >= len(args):
                    raise AnchorError('wrap-arg: call has %d arguments' % len(args))
                argtxt = [re.sub(r'\s+', ' ', text[x:y].strip()) for (x, y) in args]
                (x, y) = args[argidx]
                while text[x].isspace():
                    x += 1
                if text[x] == '&' and not keep_ref:
                    x += 1
                while text[y - 1].isspace():
                    y -= 1
                def subst(lines):
                    out = []
                    for l in lines:
                        for i2, t in enumerate(argtxt):
                            l = l.replace('$ARG%d' % i2, t)
                        out.append(l)
                    return out
                pre = Block(b.bid, b.directive, b.args, subst(b.lines[:sep]), b.sidecar, b.sidecar_line)
                suf = Block(b.bid, b.directive, b.args, subst(b.lines[sep + 1:]), b.sidecar, b.sidecar_line + sep + 1)
                ins.append((x, 'inline', pre))
                ins.append((y, 'inline', suf))
        elif d in ('loop-body', 'loop-end', 'after-loop'):
            fnpath, spec = split_args(b.args)
            pos = src.find_loop(fnpath, spec)
            k, par = pos, 0
            while k < len(src.m):
                ch = src.m[k]
                if ch in '([':
                    par += 1
                elif ch in ')]':
                    par -= 1
                elif ch == '{' and par == 0:
                    break
                k += 1
            if d == 'loop-body':
                ins.append((line_end(text, k), 'lines', b))
            elif d == 'after-loop':
                from rustscan import match_brace
                ins.append((line_end(text, match_brace(src.m, k)), 'lines', b))
            else:
                from rustscan import match_brace
                ins.append((line_start(text, match_brace(src.m, k)), 'lines', b))
        elif d == 'body-start':
            _, op, _ = src.find_fn(split_args(b.args)[0])
            ins.append((line_end(text, op), 'lines', b))
        else:
            raise AnchorError('unknown directive @%s in %s' % (d, b.sidecar))
    return ins


def weave_text(text, ins):
    """returns (woven_text, linemap) ; linemap[i] for woven line i+1 = {'src': n, 'inl': [(c0,c1,bid)]} or {'blk': bid, 'off': k}"""
    order = sorted(range(len(ins)), key=lambda i: (ins[i][0], i))
    pieces = []     # (woven text piece)
    linemap = []
    by_pos_lines = {}
    by_pos_inline = {}
    for i in order:
        pos, kind, b = ins[i]
        (by_pos_lines if kind == 'lines' else by_pos_inline).setdefault(pos, []).append(b)
    src_lines = text.split('\n')
    pos = 0
    for n, line in enumerate(src_lines, 1):
        last = (n == len(src_lines))
        for b in by_pos_lines.get(pos, []):
            if last and pos == len(text) and not line:
                pass
            for k, l in enumerate(b.lines):
                pieces.append(l + '\n')
                linemap.append({'blk': b.bid, 'off': k})
        # inline insertions within this line
        inl = []
        seg = ''
        col = 0
        for p in sorted(q for q in by_pos_inline if pos <= q < pos + len(line) + (0 if last else 1)):
            for b in by_pos_inline[p]:
                seg += line[col:p - pos]
                col = p - pos
                t = ' ' + ' '.join(re.sub(r'\s*//@.*$', '', x.strip()) for x in b.lines if not x.strip().startswith('//@')) + ' '
                c0 = len(seg)
                seg += t
                inl.append((c0 + 1, len(seg) + 1, b.bid))
        seg += line[col:]
        pieces.append(seg + ('' if last else '\n'))
        e = {'src': n}
        if inl:
            e['inl'] = inl
        linemap.append(e)
        pos += len(line) + 1
    # insertions at EOF when the file ends with a newline (pos == len(text)) were handled by the last empty line
    return ''.join(pieces), linemap


def unweave(woven, linemap):
    out = []
    lines = woven.split('\n')
    for i, e in enumerate(linemap):
        if 'src' not in e:
            continue
        l = lines[i]
        for (c0, c1, _) in reversed(e.get('inl', [])):
            l = l[:c0 - 1] + l[c1 - 1:]
        out.append(l)
    return '\n'.join(out)


def fn_exists(text, fnpath):
    try:
        Source(text).find_fn(fnpath)
        return True
    except AnchorError:
        return False


HINT_DIRECTIVES = ('before', 'after', 'body-start', 'loop-body', 'loop-end', 'after-loop')


def weave_all(repo_src, contracts_dir, spec_dir, out_dir, extra_blocks=None, skip_hints_for=None, quarantine=None, strip=None):
    """Weave the whole crate.  returns a dict describing what was done (also written to out_dir/weave.json)."""
    if os.path.exists(out_dir):
        shutil.rmtree(out_dir)
    os.makedirs(out_dir)
    info = {'files': {}, 'normalisations': [], 'blocks': {}}
    names = sorted(f for f in os.listdir(repo_src) if f.endswith('.rs'))
    for fname in names:
        with open(os.path.join(repo_src, fname)) as f:
            orig = f.read()
        norm, notes = normalise(fname, orig)
        info['normalisations'] += notes
        sc = os.path.join(contracts_dir, fname[:-3] + '.contract')
        blocks = parse_sidecar(sc) if os.path.exists(sc) else []
        # $CONST_NANOS(NAME): the value of a `Duration` constant of this file, read mechanically from its initialiser in the CURRENT
        # source (such constants are external to Verus; an axiom about them must say what the code says, not what it used to say)
        for b in blocks:
            for k, l in enumerate(b.lines):
                for m in re.finditer(r'\$CONST_NANOS\((\w+)\)', l):
                    cm = re.search(r'const\s+%s\s*:\s*Duration\s*=\s*Duration::from_(secs|millis|micros|nanos)\((\d[\d_]*)\)\s*;' % m.group(1), orig)
                    if not cm:
                        raise AnchorError('%s: constant %s is not a `Duration::from_<unit>(<literal>)` any more: its value cannot be read' % (fname, m.group(1)))
                    nanos = int(cm.group(2).replace('_', '')) * {'secs': 10**9, 'millis': 10**6, 'micros': 10**3, 'nanos': 1}[cm.group(1)]
                    b.lines[k] = b.lines[k].replace(m.group(0), str(nanos))
        if quarantine:
            # quarantine: the function can no longer carry ANY of its annotations (renamed locals, restructured loops).
            # Keep only its contract, mark it external_body (the contract is then ASSUMED for its callers), so that the
            # rest of the crate can still be verified; the runner reports the function's own obligations as undecided.
            kept = []
            for b in blocks:
                if b.directive in ('fn', 'loop', 'wrap-arg', 'inline', 'inline-after') + HINT_DIRECTIVES and (fname, split_args(b.args)[0]) in quarantine:
                    if b.directive == 'fn' and fn_exists(norm, split_args(b.args)[0]):
                        if strip and (fname, split_args(b.args)[0]) in strip:
                            # even the contract no longer type-checks (e.g. a renamed parameter): no specification at all
                            b.lines = ['#[verifier::external_body]  // QUARANTINED by the runner, contract dropped']
                            b.__init__(b.bid, b.directive, b.args, b.lines, b.sidecar, b.sidecar_line)
                        elif not any('external_body' in l for l in b.lines):
                            b.lines = ['#[verifier::external_body]  // QUARANTINED by the runner'] + b.lines
                            b.__init__(b.bid, b.directive, b.args, b.lines, b.sidecar, b.sidecar_line - 1)
                        kept.append(b)
                    continue
                kept.append(b)
            blocks = kept
            for k, b in enumerate(blocks):
                b.bid = k
        if skip_hints_for:
            # degraded mode: a changed function can no longer carry its in-body proof hints; keep its contract and
            # loop invariants only (instrumentation that defines ghost state, i.e. blocks marked KEEP, stays)
            kept = []
            for b in blocks:
                if b.directive in HINT_DIRECTIVES and (fname, split_args(b.args)[0]) in skip_hints_for \
                        and not any('KEEP' in l for l in b.lines):
                    continue
                kept.append(b)
            blocks = kept
            for k, b in enumerate(blocks):
                b.bid = k
        if extra_blocks and fname in extra_blocks:
            # generated blocks go FIRST so that, at equal positions, they precede sidecar attributes
            gen = [Block(0, directive, args, lines, '<generated>', 0) for (directive, args, lines) in extra_blocks[fname]]
            blocks = gen + blocks
            for k, b in enumerate(blocks):
                b.bid = k
        src = Source(norm)
        lost = []
        ins = plan_insertions(src, blocks, lost)
        if lost:
            # a lost anchor inside a function quarantines that function (see above); anything else is fatal
            lost_fns = set()
            for (b, msg) in lost:
                if b.directive in ('fn', 'loop', 'wrap-arg', 'inline', 'inline-after') + HINT_DIRECTIVES:
                    lost_fns.add((fname, split_args(b.args)[0]))
                else:
                    raise AnchorError('%s: %s' % (fname, msg))
            info.setdefault('lost_anchors', []).extend('%s: %s' % (fname, m) for (_, m) in lost)
            info.setdefault('lost_fns', set()).update(lost_fns)
            continue
        woven, linemap = weave_text(norm, ins)
        if unweave(woven, linemap) != norm:
            raise AnchorError('%s: self-check failed (woven minus insertions != normalised source)' % fname)
        with open(os.path.join(out_dir, fname), 'w') as f:
            f.write(woven)
        wsrc = Source(woven)
        fnspans = []
        for (name, a, e) in wsrc.fn_spans():
            fnspans.append((name, woven.count('\n', 0, a) + 1, woven.count('\n', 0, e) + 1))
        info['files'][fname] = {
            'linemap': linemap,
            'fnspans': fnspans,
            'inserted_lines': sum(1 for e in linemap if 'blk' in e),
            'src_lines': sum(1 for e in linemap if 'src' in e),
        }
        info['blocks'][fname] = [{
            'bid': b.bid, 'directive': b.directive, 'args': b.args, 'sidecar': os.path.basename(b.sidecar),
            'sidecar_line': b.sidecar_line, 'lines': b.lines,
            'tags': {str(k): v for k, v in b.tags.items()},
        } for b in blocks]
    # spec library
    if spec_dir and os.path.isdir(spec_dir):
        for f in sorted(os.listdir(spec_dir)):
            if f.endswith('.rs'):
                shutil.copy(os.path.join(spec_dir, f), os.path.join(out_dir, f))
    if info.get('lost_fns'):
        # weave again with the affected functions quarantined (or, if the function itself is gone, without its blocks)
        lost_fns = set(info['lost_fns']) | set(quarantine or ())
        if quarantine and lost_fns <= set(quarantine):
            raise AnchorError('; '.join(info['lost_anchors']))
        info2 = weave_all(repo_src, contracts_dir, spec_dir, out_dir, extra_blocks=extra_blocks, skip_hints_for=skip_hints_for, quarantine=lost_fns, strip=strip)
        info2['auto_quarantined'] = sorted('%s::%s' % k for k in lost_fns)
        info2['lost_anchors'] = info['lost_anchors'] + info2.get('lost_anchors', [])
        return info2
    with open(os.path.join(out_dir, 'weave.json'), 'w') as f:
        json.dump({k: v for k, v in info.items() if k != 'lost_fns'}, f)
    return info


if __name__ == '__main__':
    import argparse
    ap = argparse.ArgumentParser()
    ap.add_argument('--repo', default='/repo/src')
    ap.add_argument('--contracts', default=os.path.join(os.path.dirname(os.path.abspath(__file__)), '..', 'contracts'))
    ap.add_argument('--spec', default=os.path.join(os.path.dirname(os.path.abspath(__file__)), '..', 'spec'))
    ap.add_argument('--out', required=True)
    a = ap.parse_args()
    try:
        info = weave_all(a.repo, a.contracts, a.spec, a.out)
    except AnchorError as ex:
        print('ANCHOR-ERROR: %s' % ex)
        sys.exit(2)
    for f, d in info['files'].items():
        print('%-18s src=%d inserted=%d' % (f, d['src_lines'], d['inserted_lines']))
    print('normalisations: %d' % len(info['normalisations']))
