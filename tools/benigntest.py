#!/usr/bin/env python3
"""Applies every behaviour-preserving refactoring under seeded/benign/*.diff to /repo, runs all checks, undoes it and
requires that no check raises an alarm (VIOLATION).  Prints, per refactoring, how many properties stayed decided."""
import os, re, subprocess, sys
HERE = os.path.dirname(os.path.abspath(__file__)); VERIF = os.path.dirname(HERE)
def sh(c, **kw): return subprocess.run(c, shell=True, stdout=subprocess.PIPE, stderr=subprocess.STDOUT, text=True, **kw)
bad = 0
if sh('git -C /repo status --porcelain -- src').stdout.strip():
    print('refusing: /repo/src has uncommitted changes'); sys.exit(2)
for f in sorted(os.listdir(os.path.join(VERIF, 'seeded', 'benign'))):
    if not f.endswith('.diff'): continue
    a = sh('git -C /repo apply %s' % os.path.join(VERIF, 'seeded', 'benign', f))
    try:
        if a.returncode: print(f, 'PATCH DOES NOT APPLY'); continue
        r = sh('python3 %s/check.py all --no-evidence' % HERE, cwd=VERIF)
    finally:
        sh('git -C /repo checkout -- .')
    v = sorted(set(re.findall(r'VIOLATION property=(\S+)', r.stdout)))
    ok = len(re.findall(r'^C\d+: OK', r.stdout, re.M))
    print('%-8s alarms=%s decided(OK)=%d undecided=%d' % (f, ','.join(v) or 'none', ok, 18 - ok - len(v)))
    bad += len(v)
print('FALSE ALARMS: %d' % bad); sys.exit(1 if bad else 0)
