#!/usr/bin/env python3
"""The normalisations N1-N7 (tools/weave.py) are the only places where the verified text differs from /repo/src apart from
insertions.  This applies ONLY the normalisations to a scratch copy of the crate (N5/N7 call three one-line helpers, given here in
plain Rust exactly as in spec/verif_spec.rs), builds it with and without the client feature and runs the crate's own test suite:
the normalised crate must behave like the original as far as the 42 tests can tell.  exit 0 = all tests pass."""
import os, shutil, subprocess, sys
HERE = os.path.dirname(os.path.abspath(__file__))
sys.path.insert(0, HERE)
import weave
REPO = os.environ.get('VERIF_REPO', '/repo')
SHIM = '''
#[doc(hidden)]
pub mod verif_spec {
    pub fn join_and_ignore<T>(h: std::thread::JoinHandle<T>) { let _ = h.join(); }
    pub fn ipv4_unspecified() -> std::net::Ipv4Addr { std::net::Ipv4Addr::UNSPECIFIED }
    pub fn ipv6_unspecified() -> std::net::Ipv6Addr { std::net::Ipv6Addr::UNSPECIFIED }
}
'''

def main():
    d = '/var/tmp/verif-normtest-%d' % os.getpid()
    shutil.rmtree(d, ignore_errors=True)
    shutil.copytree(REPO, d, ignore=shutil.ignore_patterns('target', '.git'))
    n = 0
    for f in sorted(os.listdir(os.path.join(d, 'src'))):
        if not f.endswith('.rs'):
            continue
        p = os.path.join(d, 'src', f)
        text, notes = weave.normalise(f, open(p).read())
        n += len(notes)
        if f == 'lib.rs':
            text += SHIM
        open(p, 'w').write(text)
    rc = 0
    for feat in ([], ['--features', 'client']):
        r = subprocess.run(['cargo', 'test', '--offline', '-q'] + feat, cwd=d, env=dict(os.environ, CARGO_NET_OFFLINE='true'),
                           stdout=subprocess.PIPE, stderr=subprocess.STDOUT, text=True)
        res = [l for l in r.stdout.split('\n') if l.startswith('test result')]
        print('cargo test %s: exit %d; %s' % (' '.join(feat), r.returncode, ' | '.join(res)[:300]))
        if r.returncode != 0:
            print(r.stdout[-2000:])
            rc = 1
    print('normalisation sites rewritten: %d' % n)
    shutil.rmtree(d, ignore_errors=True)
    sys.exit(rc)

if __name__ == '__main__':
    main()
