#!/usr/bin/env python3
"""Mechanical extraction (every run) of private functions of /repo/src that the bounded stand-ins execute:
the function items are copied VERBATIM (signature and body) into replay/src/extracted.rs; nothing is dropped
but the surrounding module (their `use` lines are reproduced below).  exit 2 if a function cannot be located."""
import os, sys
HERE = os.path.dirname(os.path.abspath(__file__))
sys.path.insert(0, HERE)
from rustscan import Source, AnchorError, line_start

REPO = os.environ.get('VERIF_REPO', '/repo')
WANT = [('server.rs', 'convert_file_path'), ('server.rs', 'validate_file_path'), ('server.rs', 'check_file_exists')]

def main():
    out = ['// GENERATED on every run by tools/extract.py from %s/src -- do not edit.' % REPO,
           '// The function items below are verbatim copies (signature and body).',
           '#![allow(dead_code, clippy::all)]',
           'use std::path::{Path, PathBuf, MAIN_SEPARATOR};',
           'use tftpd::ErrorCode;', '']
    for fname, fn in WANT:
        text = open(os.path.join(REPO, 'src', fname)).read()
        src = Source(text)
        try:
            pos, op, cl = src.find_fn(fn)
        except AnchorError as ex:
            print('EXTRACT-ERROR: %s' % ex)
            sys.exit(2)
        item = text[line_start(text, pos):cl + 1]
        if not item.lstrip().startswith('pub'):
            item = 'pub ' + item.lstrip()
        out.append('// ---- %s::%s (src/%s) ----' % (fname[:-3], fn, fname))
        out.append(item)
        out.append('')
    dst = os.path.join(os.environ.get('VERIF_REPLAY_OUT', os.path.join(os.path.dirname(HERE), 'replay')), 'src', 'extracted.rs')
    open(dst, 'w').write('\n'.join(out))
    print('extracted %d functions into %s' % (len(WANT), dst))

if __name__ == '__main__':
    main()
