#!/usr/bin/env python3
"""Development helper: like seedtest.py / benigntest.py but on scratch copies of /repo (VERIF_REPO override), several at a
time, so that /repo stays untouched.  Kani is skipped in this mode; stand-ins and witness finders run against the copy.
usage: seedtest_par.py [filter] [-j N]"""
import json, os, re, shutil, subprocess, sys
from concurrent.futures import ThreadPoolExecutor
HERE = os.path.dirname(os.path.abspath(__file__)); VERIF = os.path.dirname(HERE)

def sh(c, **kw): return subprocess.run(c, shell=True, stdout=subprocess.PIPE, stderr=subprocess.STDOUT, text=True, **kw)

def run(item):
    name, patch, target = item
    d = '/var/tmp/sp-' + name
    shutil.rmtree(d, ignore_errors=True); os.makedirs(d)
    sh('git -C /repo archive HEAD | tar -x -C %s' % d)
    a = sh('patch -p1 -s < %s' % patch, cwd=d)
    if a.returncode: return (name, target, 'PATCH DOES NOT APPLY', '', a.stdout[:100])
    r = sh('python3 %s/check.py all --no-evidence --standins' % HERE, cwd=VERIF, env=dict(os.environ, VERIF_REPO=d, VERIF_SCRATCH=d + '/w'))
    shutil.rmtree(d, ignore_errors=True)
    viol = sorted(set(re.findall(r'VIOLATION property=(\S+)', r.stdout)))
    ok = len(re.findall(r'^C\d+: OK', r.stdout, re.M))
    obls = sorted(set(re.findall(r'(?:obligation|stand-in|kani-harness)=(\S+)', r.stdout)))
    if target:
        wit = 'concrete input' if re.search(r'VIOLATION property=%s .*?(witness:|stand-in=|concrete failing)' % target, r.stdout) else ''
        res = 'CAUGHT' if target in viol else ('inconclusive' if 'INCONCLUSIVE' in r.stdout else 'MISSED')
        return (name, target, res, ','.join(viol), wit + ' | ' + ','.join(obls)[:150])
    return (name, '-', 'FALSE ALARM' if viol else 'no alarm', ','.join(viol), 'decided(OK)=%d' % ok)

def main():
    args = [a for a in sys.argv[1:]]
    j = 4
    if '-j' in args:
        j = int(args[args.index('-j') + 1]); del args[args.index('-j'):args.index('-j') + 2]
    flt = args[0].lstrip('=') if args else ''   # a filter that starts with '-' is written =-3
    items = []
    for d in sorted(os.listdir(os.path.join(VERIF, 'seeded'))):
        p = os.path.join(VERIF, 'seeded', d, 'patch.diff')
        if os.path.exists(p) and flt in d:
            meta = json.load(open(os.path.join(VERIF, 'seeded', d, 'meta.json')))
            items.append((d, p, meta['property']))
    for f in sorted(os.listdir(os.path.join(VERIF, 'seeded', 'benign'))):
        if f.endswith('.diff') and flt in f:
            items.append((f[:-5], os.path.join(VERIF, 'seeded', 'benign', f), None))
    with ThreadPoolExecutor(j) as ex:
        for row in ex.map(run, items):
            print('%-10s target=%-4s %-13s flagged=%-22s %s' % row, flush=True)

if __name__ == '__main__':
    main()
