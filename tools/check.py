#!/usr/bin/env python3
"""Runner: weave contracts into a scratch copy of /repo/src, run Verus, attribute every failed
verification condition to a named obligation, decide one property, write evidence.

usage: check.py <PROPERTY-ID|all> [--tier quick|thorough] [--keep] [--show]

exit 0  every obligation tagged with the property was discharged
exit 1  a tagged obligation failed           -> prints `VIOLATION property=<id> replay=<path> ...`
exit 2  inconclusive (lost anchor, construct Verus rejects, resource limit, tool failure) - never an alarm
"""
import argparse
import json
import os
import re
import shutil
import subprocess
import sys
import time

HERE = os.path.dirname(os.path.abspath(__file__))
VERIF = os.path.dirname(HERE)
sys.path.insert(0, HERE)
import weave  # noqa: E402
from rustscan import AnchorError, split_args  # noqa: E402

REPO = os.environ.get('VERIF_REPO', '/repo')

VERIFICATION_MSG = re.compile(
    r'^(postcondition not satisfied|precondition not satisfied|precondition not met|assertion failed|invariant not satisfied'
    r'|loop invariant not satisfied|possible arithmetic underflow/overflow|possible division by zero'
    r'|possible bit shift underflow/overflow|decreases not satisfied|unreachable|assert_by_compute'
    r'|cannot show invariant holds|possible truncation|recommendation not met|unable to prove'
    r'|possible integer overflow|could not prove termination|constructed value may fail to meet'
    r'|possible cast|cast (?:to|from).*(?:overflow|truncat))', re.I)
RLIMIT_MSG = re.compile(r'(resource limit|rlimit|timed? ?out|took too long)', re.I)


def load_properties():
    props = {}
    with open(os.path.join(VERIF, 'properties.jsonl')) as f:
        for line in f:
            if line.strip():
                p = json.loads(line)
                props[p['id']] = p
    return props


def load_known_findings():
    """known_findings.txt lines:
         finding: property=<id> obligation=<obligation-id> <text>
         fixed: property=<id> <commit> <text>          (suppresses nothing)
    """
    res = []
    path = os.path.join(VERIF, 'known_findings.txt')
    if os.path.exists(path):
        with open(path) as f:
            for line in f:
                m = re.match(r'finding:\s*property=(\S+)\s+obligation=(\S+)\s+(.*)$', line.strip())
                if m:
                    res.append({'property': m.group(1), 'obligation': m.group(2), 'text': m.group(3)})
    return res


MODULE_PANIC_PROPS = {'server.rs': ['C05'], 'packet.rs': ['C05', 'C10'], 'convert.rs': ['C05', 'C10'], 'socket.rs': ['C05'],
                      'worker.rs': ['C07'], 'window.rs': ['C18'], 'config.rs': ['C17'], 'client_config.rs': ['C17'], 'client.rs': ['C14']}


class Universe:
    """all obligations declared by the sidecars, per woven file"""

    def __init__(self, info):
        self.info = info
        self.oblig = {}     # id -> {'props': [...], 'file':, 'fn':, 'text':, 'kind':}
        self.fn_nopanic = {}  # (file, fnname) -> obligation id
        self.contracted = {}  # (file, fnpath)
        self.auto_helpers = {}  # file -> names of helper fns included without a contract
        self.fn_external = {}  # (file, fnpath) -> body not verified (external_body / trait declaration)
        self.assumed = {}      # tagged ensures clauses of external_body functions: assumptions, not obligations
        for fname, blocks in info['blocks'].items():
            for b in blocks:
                fnpath = None
                if b['directive'] in ('fn', 'loop', 'before', 'after', 'inline', 'inline-after', 'body-start', 'loop-body', 'loop-end', 'wrap-arg'):
                    fnpath = split_args(b['args'])[0]
                if b['directive'] == 'fn' and b['sidecar'] == '<generated>':
                    # helper brought in automatically (no sidecar): only its own panic-freedom is an obligation
                    oid = '%s.%s.nopanic(new helper)' % (fname[:-3], short_fn(fnpath))
                    self.oblig[oid] = {'props': MODULE_PANIC_PROPS.get(fname, []), 'file': fname, 'fn': fnpath, 'kind': 'helper',
                                       'text': 'new helper %s (no contract yet): its body must not panic' % fnpath}
                    self.fn_nopanic[(fname, last_seg(fnpath))] = oid
                    self.auto_helpers.setdefault(fname, []).append(last_seg(fnpath))
                    continue
                if b['directive'] == 'fn':
                    m = re.search(r'nopanic=([A-Z0-9,]+)', b['args'])
                    self.contracted[(fname, fnpath)] = True
                    if m:
                        oid = '%s.%s.nopanic' % (fname[:-3], short_fn(fnpath))
                        self.oblig[oid] = {
                            'props': m.group(1).split(','), 'file': fname, 'fn': fnpath, 'kind': 'nopanic',
                            'text': 'every arithmetic operation, index, slice, unwrap and callee precondition in the real body of %s is proved safe' % fnpath}
                        self.fn_nopanic[(fname, last_seg(fnpath))] = oid
                seen = {}
                external = b['directive'] == 'fn' and any('external_body' in l and not l.strip().startswith('##') for l in b['lines'])
                if b['directive'] == 'fn':
                    self.fn_external[(fname, fnpath)] = external or fnpath.startswith('trait:')
                section = {}
                cursec = None
                for off, l in enumerate(b['lines']):
                    t = l.strip()
                    if re.match(r'(#\[verus_spec\(.*)?\brequires\b', t) or t.startswith('requires'):
                        cursec = 'requires'
                    if t.startswith('ensures'):
                        cursec = 'ensures'
                    section[off] = cursec
                for off, (oid, props) in sorted(((int(k), v) for k, v in b['tags'].items())):
                    if external and section.get(off) == 'ensures':
                        self.assumed.setdefault(oid, {'props': props, 'file': fname, 'fn': fnpath, 'text': b['lines'][off].strip()})
                        continue
                    seen.setdefault(oid, []).append(b['lines'][off].strip())
                    if oid not in self.oblig:
                        self.oblig[oid] = {'props': props, 'file': fname, 'fn': fnpath, 'kind': b['directive'], 'text': ''}
                    elif set(self.oblig[oid]['props']) != set(props):
                        self.oblig[oid]['props'] = sorted(set(self.oblig[oid]['props']) | set(props))
                for oid, lines in seen.items():
                    t = ' '.join(re.sub(r'\s*//@.*$', '', l) for l in lines)
                    self.oblig[oid]['text'] = (self.oblig[oid]['text'] + ' ' + t).strip()[:600]
        # every function of a file under contract that no sidecar block names is an uncontracted helper
        for fname, blocks in info['blocks'].items():
            if not any(b['directive'] == 'fn' for b in blocks):
                continue
            known = set(last_seg(split_args(b['args'])[0]) for b in blocks if b['directive'] == 'fn')
            for (name, a, e) in info['files'][fname]['fnspans']:
                if name not in known and name not in self.auto_helpers.get(fname, []):
                    self.auto_helpers.setdefault(fname, []).append(name)

    def for_property(self, pid):
        return {k: v for k, v in self.oblig.items() if pid in v['props']}


class FullUniverse:
    contracted = {}

    """obligations of functions that had to be quarantined because their anchors were lost, read from the sidecars
    directly (the woven crate no longer contains them)"""

    def __init__(self, fns, uni):
        self.oblig = dict(uni.oblig)
        for fname in sorted(set(f for f, _ in fns)):
            sc = os.path.join(VERIF, 'contracts', fname[:-3] + '.contract')
            if not os.path.exists(sc):
                continue
            for b in weave.parse_sidecar(sc):
                args = split_args(b.args)
                if not args or (fname, args[0]) not in fns:
                    continue
                m = re.search(r'nopanic=([A-Z0-9,]+)', b.args)
                if b.directive == 'fn' and m:
                    self.oblig['%s.%s.nopanic' % (fname[:-3], short_fn(args[0]))] = {'props': m.group(1).split(','), 'file': fname, 'fn': args[0], 'kind': 'nopanic', 'text': 'panic-freedom of ' + args[0]}
                for off, (oid, props) in b.tags.items():
                    self.oblig.setdefault(oid, {'props': props, 'file': fname, 'fn': args[0], 'kind': b.directive, 'text': b.lines[off].strip()})

    def for_property(self, pid):
        return {k: v for k, v in self.oblig.items() if pid in v['props']}


def last_seg(fnpath):
    return re.sub(r'^.*[:/]', '', fnpath)


def short_fn(fnpath):
    return re.sub(r'[<>]', '', fnpath).replace(' for ', '_for_').replace('::', '.').replace('/', '.').replace(' ', '_')


def locate(info, fname, line, col=None):
    """map woven (file, line) -> dict(kind='src'|'ins', ...)"""
    f = info['files'].get(fname)
    if not f or line < 1 or line > len(f['linemap']):
        return None
    e = f['linemap'][line - 1]
    fn = None
    for (name, a, b) in f['fnspans']:
        if a <= line <= b:
            fn = name  # innermost wins (later spans nested inside earlier ones start later)
    if 'blk' in e:
        blk = info['blocks'][fname][e['blk']]
        tag = blk['tags'].get(str(e['off']))
        return {'kind': 'ins', 'file': fname, 'block': blk, 'off': e['off'], 'tag': tag, 'fn': fn,
                'text': blk['lines'][e['off']].strip(), 'sidecar': '%s:%d' % (blk['sidecar'], blk['sidecar_line'] + e['off'])}
    if col is not None:
        for (c0, c1, bid) in e.get('inl', []):
            if c0 <= col < c1:
                blk = info['blocks'][fname][bid]
                tags = [blk['tags'][k] for k in sorted(blk['tags'], key=int)]
                return {'kind': 'ins', 'file': fname, 'block': blk, 'off': 0, 'tag': tags[0] if tags else None, 'fn': fn,
                        'text': ' '.join(x.strip() for x in blk['lines']), 'sidecar': '%s:%d' % (blk['sidecar'], blk['sidecar_line'])}
    return {'kind': 'src', 'file': fname, 'line': e['src'], 'fn': fn, 'inl': e.get('inl')}


def spans_of(d):
    res = []
    for s in d.get('spans', []):
        res.append(s)
    for c in d.get('children', []):
        for s in c.get('spans', []):
            res.append(s)
    return res


def attribute(d, info, uni):
    """returns (obligation id or None, description dict)"""
    spans = spans_of(d)
    cands = []
    prim = None
    for s in spans:
        loc = locate(info, os.path.basename(s['file_name']), s['line_start'], s.get('column_start'))
        if loc is None:
            continue
        if s.get('is_primary') and prim is None:
            prim = (s, loc)
        if loc['kind'] == 'ins' and loc['tag']:
            cands.append((0 if not s.get('is_primary') else 1, loc))
    desc = {'message': d['message'], 'rendered': d.get('rendered')}
    if prim:
        s, loc = prim
        desc['primary'] = {'woven': '%s:%d' % (s['file_name'], s['line_start']),
                           'where': ('%s:%d' % (loc['file'], loc['line'])) if loc['kind'] == 'src' else ('contract ' + loc['sidecar']),
                           'fn': loc['fn'], 'code': (s.get('text') or [{}])[0].get('text', '').strip()}
    if prim:
        sp, ploc = prim
        hk = (ploc['file'], ploc['fn'])
        if ploc['kind'] == 'src' and ploc['fn'] and hk not in uni.fn_nopanic \
                and not any(f == ploc['file'] and last_seg(pth) == ploc['fn'] for (f, pth) in uni.contracted):
            # a function no sidecar knows (e.g. a new method in a verified impl): treated as an uncontracted helper
            oid = '%s.%s.nopanic(new helper)' % (ploc['file'][:-3], ploc['fn'])
            uni.oblig.setdefault(oid, {'props': MODULE_PANIC_PROPS.get(ploc['file'], []), 'file': ploc['file'], 'fn': ploc['fn'], 'kind': 'helper',
                                       'text': 'new helper %s (no contract yet)' % ploc['fn']})
            uni.fn_nopanic[hk] = oid
            uni.auto_helpers.setdefault(ploc['file'], []).append(ploc['fn'])
        if ploc['kind'] == 'src' and hk in uni.fn_nopanic and uni.oblig[uni.fn_nopanic[hk]]['kind'] == 'helper':
            return uni.fn_nopanic[hk], desc
    if not cands:
        # an untagged (auxiliary) clause of a contract block: the function's general obligation
        for sp in spans:
            loc = locate(info, os.path.basename(sp['file_name']), sp['line_start'], sp.get('column_start'))
            if loc and loc['kind'] == 'ins' and not loc['tag'] and loc['block']['directive'] in ('fn', 'loop'):
                key = (loc['file'], last_seg(split_args(loc['block']['args'])[0]))
                if key in uni.fn_nopanic:
                    desc['clause'] = {'sidecar': loc['sidecar'], 'text': loc['text']}
                    desc['aux'] = True      # bookkeeping clause (frame, ghost accounting), not a panic source
                    return uni.fn_nopanic[key], desc
    if cands:
        cands.sort(key=lambda c: c[0])
        loc = cands[0][1]
        desc['clause'] = {'sidecar': loc['sidecar'], 'text': loc['text']}
        return loc['tag'][0], desc
    if prim:
        s, loc = prim
        key = (loc['file'], loc['fn'])
        if key in uni.fn_nopanic:
            return uni.fn_nopanic[key], desc
        desc['unattributed_fn'] = '%s::%s' % key
    return None, desc


def scan_trusted(woven_dir):
    """mechanical scan for every assumption-carrying construct in the woven crate"""
    items = []
    counts = {'assume(': 0, 'admit(': 0}
    pat = re.compile(r'(assume_specification|external_body|external_trait_specification|external_type_specification|'
                     r'external_fn_specification|verifier::external\b|\baxiom\b|\badmit\s*\(|\bassume\s*\(|exec_allows_no_decreases_clause|uninterp\s+spec\s+fn)')
    for f in sorted(os.listdir(woven_dir)):
        if not f.endswith('.rs'):
            continue
        lines = open(os.path.join(woven_dir, f)).read().split('\n')
        for n, l in enumerate(lines):
            if l.strip().startswith('//'):
                continue
            m = pat.search(l)
            if not m:
                continue
            k = m.group(1)
            if k.startswith('admit'):
                counts['admit('] += 1
            if k.startswith('assume') and 'assume_specification' not in k:
                counts['assume('] += 1
            # describe with the next non-attribute line
            ctx = l.strip()
            if ctx.startswith('#['):
                depth = 0
                for j in range(n, min(n + 60, len(lines))):
                    s = lines[j].strip()
                    code = re.sub(r'//.*$', '', s)
                    if depth == 0 and j > n and code and not code.startswith('#[') and re.search(r'\b(fn|struct|const|trait|impl|type|enum)\b', code):
                        ctx = ctx + ' ' + s
                        break
                    if j >= n and code.startswith('#['):
                        depth += code.count('(') - code.count(')')
                    elif depth > 0:
                        depth += code.count('(') - code.count(')')
            items.append('%s: %s' % (f, re.sub(r'\s+', ' ', ctx)[:200]))
    return items, counts


def _verus(woven_dir, extra):
    cmd = ['verus', '--crate-type=lib', 'lib.rs', '--no-trait-conflicts', '--cfg', 'feature="client"',
           '--output-json', '--time-expanded', '--error-format=json'] + extra
    p = subprocess.run(cmd, cwd=woven_dir, stdout=subprocess.PIPE, stderr=subprocess.PIPE, text=True)
    try:
        out = json.loads(p.stdout)
    except Exception:
        out = None
    diags, other = [], []
    for line in p.stderr.split('\n'):
        if not line.strip():
            continue
        try:
            d = json.loads(line)
            if isinstance(d, dict) and d.get('$message_type') == 'diagnostic':
                diags.append(d)
            else:
                other.append(line)
        except Exception:
            other.append(line)
    return cmd, p.returncode, out, diags, other


def _breakdown(out):
    res = {}
    for m in (out or {}).get('times-ms', {}).get('smt', {}).get('smt-run-module-times', []):
        for fb in m.get('function-breakdown', []):
            res[fb['function']] = {'success': fb['success'], 'time_ms': fb['time'], 'rlimit': fb['rlimit'], 'module': m['module']}
    return res


def run_verus(woven_dir, tier, log_dir):
    """Phase 1: the whole crate, at most 2 errors per function (fast; on an unchanged tree this is all).
    Phase 2: every function that failed or ran out of resources is re-verified alone with a larger resource
    limit and up to 8 errors, so that every failing obligation of it gets named."""
    t0 = time.time()
    rl1 = '30' if tier == 'thorough' else '20'
    cmd, rc, out, diags, other = _verus(woven_dir, ['--multiple-errors', '2', '--rlimit', rl1, '--num-threads', '16'])
    vr = {'cmd': ' '.join(cmd), 'rc': rc, 'out': out, 'diags': diags, 'other': other, 'phase2': []}
    fns = _breakdown(out)
    vr['fn_results'] = fns
    failing = sorted(k for k, v in fns.items() if not v['success'])
    vres = (out or {}).get('verification-results', {})
    if failing and not vres.get('encountered-vir-error') and 'verified' in vres:
        import concurrent.futures

        def redo(fn):
            mod = fns[fn]['module']
            pat = fn[len('lib::%s::' % mod):] if fn.startswith('lib::%s::' % mod) else fn
            extra = ['--multiple-errors', '8', '--rlimit', '120', '--num-threads', '2']
            extra += (['--verify-only-module', mod] if mod else ['--verify-root'])
            extra += ['--verify-function', pat]
            return fn, _verus(woven_dir, extra)

        with concurrent.futures.ThreadPoolExecutor(max_workers=8) as ex:
            results = list(ex.map(redo, failing[:16]))
        # keep phase-1 diagnostics that do not belong to a re-verified function; take the re-verified ones from phase 2
        redone_ok = {}
        for fn, (cmd2, rc2, out2, diags2, other2) in results:
            b2 = _breakdown(out2)
            if out2 is not None and fn in b2:
                redone_ok[fn] = (diags2, b2[fn])
                vr['phase2'].append({'function': fn, 'cmd': ' '.join(cmd2), 'result': b2[fn]})
        if redone_ok:
            short = {fn: re.sub(r'^.*::(_VERUS_VERIFIED_)?', '', fn) for fn in redone_ok}
            keep = []
            for d in diags:
                keep.append(d)
            # phase-1 error diagnostics cannot be attributed to a function reliably without spans; simplest sound
            # merge: drop ALL phase-1 error diagnostics when every failing function was re-verified, else keep them too
            if len(redone_ok) == len(failing):
                keep = [d for d in diags if d.get('level') != 'error']
            for fn, (diags2, b2) in redone_ok.items():
                keep += [d for d in diags2 if d.get('level') == 'error' and not d['message'].startswith('aborting due to')]
                fns[fn] = b2
            vr['diags'] = keep
    vr['wall'] = time.time() - t0
    return vr


# Bounded stand-ins (labelled bounded, never counted as proved): they execute REAL functions whose contracts the
# proof only assumes, on a stated finite domain, against an independent oracle.
STANDINS = {
    'C03': [{'name': 'bounded_paths', 'bin': 'bounded_paths', 'extract': True,
             'assumed_contract': 'validate_file_path / convert_file_path (external_body): accepted => dir.join(convert(name)) never leaves dir',
             'bound': '10 directory spellings x 5 leading-separator prefixes x names of 1..4 segments over an 8-element alphabet x 3 separator modes (702000 cases)'}],
    'C10': [{'name': 'bounded_to_string', 'bin': 'bounded_to_string', 'extract': False,
             'assumed_contract': 'Convert::to_string (external_body): Ok((s,i)) <=> i is the first NUL at/after start and s is the UTF-8 decoding of the bytes in between; no panic for start <= len',
             'bound': 'all byte strings of length 0..6 over {00,61,C3,A9,FF} x all start offsets (131836 cases)'},
            {'name': 'bounded_decoder', 'bin': 'bounded_decoder', 'extract': False, 'args': {'quick': ['C10'], 'thorough': ['C10']},
             'assumed_contract': 'none assumed: the decoder is under contract; this executes the real Packet::deserialize against an independent RFC decoder (twin of decodes_to) so that '
                                 'a change that makes the annotations inapplicable still meets a concrete check',
             'bound': 'all byte strings of length 0..6 over a 12-byte alphabet; all 65536 opcode prefixes x 4 tails; opcode 1/2/6 + all sequences of 0..5 tokens over a 13-token alphabet '
                      '(option names in two spellings, numbers, NUL, invalid UTF-8, 2^64) - about 4.7 million datagrams; totality, Ok <=> denotes a packet, stability under re-encoding'}],
    'C11': [{'name': 'bounded_decoder', 'bin': 'bounded_decoder', 'extract': False, 'args': {'quick': ['C11'], 'thorough': ['C11']},
             'assumed_contract': 'none assumed (see C10): real Packet::deserialize against an independent RFC decoder',
             'bound': 'as for C10 (about 4.7 million datagrams)'},
            {'name': 'bounded_codec', 'bin': 'bounded_codec', 'extract': False,
             'assumed_contract': 'serialize_data (external_body, to_be_bytes): bytes == 00 03 hi lo payload; std facts assumed by the round-trip lemma '
                                 '(usize::to_string is decimal digits that parse back; to_lowercase fixes lower-case ASCII; concat; as_bytes)',
             'bound': 'DATA: all 65536 block numbers x 40 payloads of length 0..3 over {00,01,FF} + 600- and 65464-byte payloads; ACK all u16; '
                      'to_string on 0..100000 and 2^k-1,2^k,2^k+1; to_lowercase on all 2-char ASCII strings without upper case; '
                      'RRQ/WRQ/OACK/ERROR from a grammar (10 strings incl. empty, non-ASCII, 517 bytes; 8 option values incl. usize::MAX; '
                      'lists of 0..3 options) against an independent RFC encoder plus round trip (about 2.8 million cases)'}],
    'C12': [{'name': 'listener', 'bin': 'listener', 'extract': False, 'confirm': True, 'args': {'quick': ['C12'], 'thorough': ['C12']},
             'assumed_contract': 'interleavings of several endpoints and what the listener does with an endpoint over time are outside the per-datagram routing contract',
             'bound': '16 real server configurations on loopback: two interleaved downloads from two endpoints each yield their own file; an endpoint that completed a transfer '
                      'asks again and is served; DATA/ACK/OACK/ERROR from an endpoint that owns no transfer are answered with ERROR 4'}],
    'C18': [{'name': 'bounded_window', 'bin': 'bounded_window', 'extract': False,
             'assumed_contract': 'none assumed: every Window operation is under contract; this executes the real Window against an executable twin of the specification so that a change '
                                 'that makes the annotations inapplicable still meets a concrete check',
             'bound': 'read side: file length 0..13 x chunk {1,2,3,4,5,8} x window size 1..4 x every sequence of 0..5 operations over {fill, remove(1), remove(2), remove(len), '
                      'remove(len+1)}; write side: window size 1..3 x every sequence of 0..6 operations over {add x3 payloads, empty}; six mixed histories incl. windows of 1100 and 2050 pieces; '
                      'four windows over /dev/full whose empty() must report the write error - about 1.3 million sequences (C01: read side and mixed only, C02: write side, mixed and errors)'}],
    'C17': [{'name': 'bounded_config', 'bin': 'bounded_config', 'extract': False,
             'assumed_contract': 'none assumed: Config::new / ClientConfig::new are under contract; this executes them against an executable twin of the fold specification so that a '
                                 'change that makes the annotations inapplicable (new helper, restructured loop) still meets a concrete check',
             'bound': 'every argument vector of 0..3 units over 31 server units / 23 client units (all flags, short and long forms, valid, invalid and missing values, existing and missing '
                      'directories, unknown flag) - about 43 000 vectors; -h/--help left out (ends the process)'}],
    'C14': [{'name': 'bounded_client', 'bin': 'bounded_client', 'extract': False, 'confirm': True, 'bins': True, 'args': {'quick': ['quick'], 'thorough': ['full']},
             'assumed_contract': 'interoperation of the bundled client and server (Client::upload / Client::download are outside Verus; two endpoints over UDP are not a function contract): '
                                 'byte-identical files on both sides, download stored under the base name in the receive directory, refusals create no file',
             'bound': 'real Client against real Server on loopback: {download, upload} x blksize {8,512,1468} x windowsize {1,3} x timeout 2 x 8 file sizes around block/window '
                      'boundaries x {multi-port, single-port}; nested and Windows-style request path; one name downloaded three times with shrinking content; refusals (missing file, existing file, read-only); one download of '
                      '65538 blocks with windowsize 64 (about 200 cases)'}],
}


for _p, _m in (('C01', 'read'), ('C02', 'write')):                  # the Window twin also guards the read side of C01 and the write side of C02
    STANDINS.setdefault(_p, []).append(dict(STANDINS['C18'][0], args={'quick': [_m], 'thorough': [_m]}))
for _p, _m in (('C01', 'send'), ('C02', 'recv'), ('C07', 'errors'), ('C08', 'channel')):
    STANDINS.setdefault(_p, []).append(
        {'name': 'bounded_socket', 'bin': 'bounded_socket', 'extract': False, 'confirm': True, 'args': {'quick': [_m], 'thorough': [_m]},
         'assumed_contract': 'socket layer: the contracts of UdpSocket::{send,send_to,recv_with_size,recv_from_with_size} and ServerSocket::{send,send_to} rest on assumed '
                             'specifications of std UDP calls (the datagram handed to the OS is the one that travels); ServerSocket::recv_with_size (mutex-guarded channel, '
                             'recv_timeout) is external_body: assumed to hand out the routed packets one per call, in order, and to fail after the configured time-out',
         'bound': 'real sockets on loopback: 14 packets (DATA with 0..65464 payload bytes incl. 65459..65464, block numbers 1/65535/0; ACK; ERROR with a 600-byte message) through the '
                  'four send paths, compared byte for byte with an independent RFC encoding; the same datagrams through recv_with_size / recv_from_with_size with blksize = payload '
                  'length and 65464; every sequence of 1..4 packets over {ACK 1, ACK 2, ACK 4, DATA 1, ERROR} through a ServerSocket channel (780 sequences): one per call, in order; '
                  'empty channel fails after the 50 ms time-out (each property runs its part: C01 send, C02 recv, C08 channel order, C07 ERROR delivery and time-out)'})
for _p in ('C01', 'C02', 'C04', 'C06', 'C07', 'C08', 'C13', 'C15', 'C16'):
    STANDINS.setdefault(_p, []).append(
        {'name': 'scenarios', 'bin': 'scenarios', 'extract': False, 'confirm': True, 'args': {'quick': [_p, '--quick'], 'thorough': [_p]},
         'assumed_contract': 'none assumed: the transfer loops are under contract; scripted RFC 7440 peers (in-memory sockets) run against the real Worker with executable twins of the '
                             'specification predicates, so that a change that makes the annotations inapplicable still meets a concrete check',
         'bound': 'file lengths around block/window boundaries x windowsize 1..4 x repeat {1,3} x every single fault (lost / duplicated / stale / swapped datagram at each position); '
                  'transfers of more than 65536 blocks with a fault at the wrap; window sizes 32769 and 65535; 8 and 255 copies per datagram; uploads onto a longer existing file; '
                  'aborted uploads at every point; C13: uploads onto a full disk (every write fails) (quick tier: a subset)'})
for _p in ('C03', 'C05', 'C06', 'C07', 'C09', 'C13'):
    STANDINS.setdefault(_p, []).append(
        {'name': 'listener', 'bin': 'listener', 'extract': False, 'confirm': True, 'tiers': ('thorough',), 'args': {'quick': [_p], 'thorough': [_p]},
         'assumed_contract': 'none assumed: one listener iteration is under contract; real servers on loopback answer a request catalogue (thorough tier)',
         'bound': '16 server configurations (directories shared/distinct, trailing separator, read-only, overwrite, single-port) x escape names, absolute paths, missing / existing files, '
                  'option negotiation incl. unhonourable and truncating values, about 250 hostile datagrams each followed by a valid request, aborted overwrite, '
                  'a peer that falls silent in the middle of an upload (multi-port and single-port)'})


def replay_dir():
    """the replay crate that builds against REPO: /verif/replay for /repo itself, otherwise (development: seeds and
    refactorings applied to a scratch copy) a copy of its sources whose dependency path points at that copy"""
    if REPO == '/repo':
        return os.path.join(VERIF, 'replay')
    import hashlib
    d = os.path.join('/var/tmp', 'verif-replay-' + hashlib.md5(REPO.encode()).hexdigest()[:10])
    os.makedirs(d, exist_ok=True)
    src = os.path.join(VERIF, 'replay')
    if os.path.isdir(os.path.join(d, 'src')):
        shutil.rmtree(os.path.join(d, 'src'))
    shutil.copytree(os.path.join(src, 'src'), os.path.join(d, 'src'))
    toml = open(os.path.join(src, 'Cargo.toml')).read().replace('path = "/repo"', 'path = "%s"' % REPO)
    open(os.path.join(d, 'Cargo.toml'), 'w').write(toml)
    if os.path.exists(os.path.join(src, 'Cargo.lock')):
        shutil.copy(os.path.join(src, 'Cargo.lock'), d)
    return d


def run_standins(pid, tier='quick'):
    """-> (list of evidence dicts, list of (name, counterexample text))"""
    res, cex = [], []
    rdir = replay_dir()
    env = dict(os.environ, CARGO_NET_OFFLINE='true', VERIF_REPLAY_OUT=rdir)
    for x in STANDINS.get(pid, []):
        if tier not in x.get('tiers', ('quick', 'thorough')):
            continue
        t0 = time.time()
        if x['extract']:
            e = subprocess.run([sys.executable, os.path.join(HERE, 'extract.py')], env=env, stdout=subprocess.PIPE, stderr=subprocess.STDOUT, text=True)
            if e.returncode != 0:
                res.append({'name': x['name'], 'error': e.stdout.strip()[:300]})
                continue
        if x.get('bins'):
            # the real binaries of the crate under test (main.rs / client_main.rs), built into the replay crate's target directory
            tdir = os.path.join(rdir, 'target', 'repo-bins')
            b = subprocess.run(['cargo', 'build', '--offline', '-q', '--release', '--features', 'client', '--manifest-path', os.path.join(REPO, 'Cargo.toml'),
                                '--target-dir', tdir], env=env, stdout=subprocess.PIPE, stderr=subprocess.STDOUT, text=True)
            if b.returncode == 0:
                env = dict(env, VERIF_TFTPD=os.path.join(tdir, 'release', 'tftpd'), VERIF_TFTPC=os.path.join(tdir, 'release', 'tftpc'))
        cmd = ['cargo', 'run', '--offline', '-q', '--release', '--bin', x['bin']] + (['--'] + x['args'][tier] if x.get('args') else [])
        try:
            p = subprocess.run(cmd, cwd=rdir, env=env, stdout=subprocess.PIPE, stderr=subprocess.STDOUT, text=True, timeout=1200)
        except subprocess.TimeoutExpired:
            res.append({'name': x['name'], 'label': 'BOUNDED (not a proof)', 'bound': x['bound'], 'exit': -1,
                        'error': 'the bounded program did not finish within 20 minutes: no verdict from it'})
            continue
        out = p.stdout.strip().split('\n')
        if p.returncode == 1 and x.get('confirm'):
            # a stand-in that uses real sockets and timers: a counterexample counts only if it is reproduced
            first = [l for l in out if l.startswith(('COUNTEREXAMPLE', 'WITNESS'))][:1]
            p2 = subprocess.run(cmd, cwd=rdir, env=dict(env, VERIF_NET_TIMEOUT_MS='3000'), stdout=subprocess.PIPE, stderr=subprocess.STDOUT, text=True)
            out2 = p2.stdout.strip().split('\n')
            norm = lambda ls: [re.sub(r'/\S+|\d+', '#', l)[:40] for l in ls]   # same kind of counterexample (paths, sizes and counts may differ)
            if p2.returncode != 1 or norm([l for l in out2 if l.startswith(('COUNTEREXAMPLE', 'WITNESS'))][:1]) != norm(first):
                res.append({'name': x['name'], 'label': 'BOUNDED (not a proof)', 'bound': x['bound'], 'exit': p2.returncode,
                            'error': 'a counterexample was printed once but not reproduced on a second run (timing): ignored: %s' % (first[0][:200] if first else '')})
                continue
        d = {'name': x['name'], 'label': 'BOUNDED (not a proof)', 'assumed_contract': x['assumed_contract'], 'bound': x['bound'],
             'result': out[-1][:300] if out else '', 'wall_s': round(time.time() - t0, 2), 'exit': p.returncode}
        m = re.search(r'(?:cases|runs|servers)=(\d+)', out[-1] if out else '')
        if m:
            d['cases'] = int(m.group(1))
        res.append(d)
        if p.returncode == 1 and any(l.startswith(('COUNTEREXAMPLE', 'WITNESS')) for l in out):
            cex.append((x, '\n'.join([l for l in out if l.startswith(('COUNTEREXAMPLE', 'WITNESS'))][:3] + out[-2:])))
        elif p.returncode != 0:
            d['error'] = 'stand-in did not run (exit %d): %s' % (p.returncode, ' | '.join(out[-3:])[:300])
    return res, cex


KANI_PROPS = {'C11': ['opcode_roundtrip_all_u16', 'errorcode_roundtrip_all_u16', 'ack_layout_and_roundtrip_all_u16']}


def run_kani(pid):
    """Complete (loop-free / fully unwound, full-domain) Kani harnesses that PROVE the contracts Verus only assumes for
    the to_be_bytes-based conversions.  -> (evidence dict, list of failing harness names, raw output)"""
    if pid not in KANI_PROPS or REPO != '/repo':
        return None, [], ''
    t0 = time.time()
    kdir = os.path.join(VERIF, 'kani')
    lock = os.path.join(kdir, 'Cargo.lock')
    if not os.path.exists(lock) and os.path.exists(os.path.join(REPO, 'Cargo.lock')):
        shutil.copy(os.path.join(REPO, 'Cargo.lock'), lock)
    p = subprocess.run(['cargo', 'kani'], cwd=kdir, env=dict(os.environ, CARGO_NET_OFFLINE='true'), stdout=subprocess.PIPE, stderr=subprocess.STDOUT, text=True)
    out = p.stdout
    failing = []
    cur = None
    results = {}
    for line in out.split('\n'):
        m = re.match(r'Checking harness (\S+?)\.\.\.', line)
        if m:
            cur = m.group(1).split('::')[-1]
        m = re.match(r'VERIFICATION:- (\w+)', line)
        if m and cur:
            results[cur] = m.group(1)
            if m.group(1) != 'SUCCESSFUL':
                failing.append(cur)
    ev = {'backend': 'kani 0.68 / cbmc', 'harnesses': results, 'complete': True, 'wall_s': round(time.time() - t0, 1),
          'note': 'full-domain symbolic inputs (all u16), loops fully unwound with unwinding assertions: complete proofs, not bounded'}
    missing = [h for h in KANI_PROPS[pid] if h not in results]
    if missing:
        ev['error'] = 'harnesses did not run: %s | %s' % (missing, out[-300:])
    return ev, failing, out


def canary_pass(scratch, uni0):
    """Vacuity guard (thorough tier): weave a second copy with `assert(false)` at the start of every function
    under contract and of every loop that carries an invariant.  Each of these assertions MUST be reported as
    failing; one that verifies means a contradictory precondition / invariant (or unreachable code), i.e. the
    obligations proved under it are vacuous.  Returns (number of canaries, list of canaries that did NOT fail)."""
    extra = {}
    n = 0
    info0 = uni0.info
    for fname, blocks in info0['blocks'].items():
        for b in blocks:
            if b['directive'] == 'fn':
                fnpath = split_args(b['args'])[0]
                if uni0.fn_external.get((fname, fnpath)):
                    continue
                if not any('verus_spec' in l for l in b['lines']):
                    continue
                extra.setdefault(fname, []).append(('body-start', fnpath, ['        proof! { assert(false); } // CANARY fn %s' % fnpath]))
                n += 1
            elif b['directive'] == 'loop':
                fnpath, spec = split_args(b['args'])
                extra.setdefault(fname, []).append(('loop-body', '%s %s' % (fnpath, spec), ['            proof! { assert(false); } // CANARY loop %s %s' % (fnpath, spec)]))
                n += 1
    cdir = os.path.join(scratch, 'canary')
    weave.weave_all(os.path.join(REPO, 'src'), os.path.join(VERIF, 'contracts'), os.path.join(VERIF, 'spec'), cdir, extra_blocks=extra)
    cmd, rc, out, diags, other = _verus(cdir, ['--multiple-errors', '6', '--rlimit', '30', '--num-threads', '16'])
    failed_lines = set()
    for d in diags:
        if d.get('level') == 'error' and d['message'].startswith('assertion failed'):
            for sp in d['spans']:
                if sp.get('is_primary'):
                    failed_lines.add((os.path.basename(sp['file_name']), sp['line_start']))
    missing = []
    for f in sorted(os.listdir(cdir)):
        if not f.endswith('.rs'):
            continue
        for i, l in enumerate(open(os.path.join(cdir, f)).read().split('\n'), 1):
            if '// CANARY ' in l and (f, i) not in failed_lines:
                missing.append('%s: %s' % (f, l.split('// CANARY ')[1]))
    return n, missing


def analyse(info, uni, vr):
    """-> dict(failed={oid: [desc]}, inconclusive=[...], fn_results={fn: {...}}, compile_error=bool)"""
    res = {'failed': {}, 'inconclusive': [], 'fn_results': {}, 'compile_error': False, 'unattributed': []}
    out = vr['out']
    if out is None:
        res['compile_error'] = True
        res['inconclusive'].append('verus produced no JSON output: ' + ' | '.join(vr['other'][:5]))
        return res
    vres = out.get('verification-results', {})
    res['fn_results'] = dict(vr.get('fn_results') or _breakdown(out))
    errors = [d for d in vr['diags'] if d['level'] == 'error' and not d['message'].startswith('aborting due to')]
    rustc_err = any(d.get('code') for d in errors) or (errors and vres.get('errors', 0) == 0 and not vr.get('phase2'))
    if vres.get('encountered-vir-error') or 'verified' not in vres or rustc_err:
        res['compile_error'] = True
        for d in errors:
            res['inconclusive'].append('verus/rustc rejected the woven crate: %s %s' % (
                d['message'][:300], ['%s:%d' % (s['file_name'], s['line_start']) for s in d['spans']][:2]))
        if not errors:
            res['inconclusive'].append('verus failed before verification: ' + ' | '.join(vr['other'][:5]))
        return res
    for d in errors:
        msg = d['message']
        oid, desc = attribute(d, info, uni)
        if RLIMIT_MSG.search(msg):
            res['inconclusive'].append('resource limit: %s (%s)' % (msg[:200], desc.get('primary')))
            continue
        if not VERIFICATION_MSG.search(msg):
            res['inconclusive'].append('unclassified verus error: %s (%s)' % (msg[:300], desc.get('primary')))
            continue
        if oid is None:
            res['unattributed'].append(desc)
            continue
        res['failed'].setdefault(oid, []).append(desc)
    res['verified'] = vres.get('verified')
    res['errors'] = vres.get('errors')
    return res


def fn_key_matches(fnkey, fname, fnpath):
    """does verus function name `lib::worker::Worker::send_file` (or impl&%N) belong to sidecar fn path?"""
    mod = fname[:-3]
    m = re.match(r'<\s*[\w:]+(?:<[^>]*>)?\s+for\s+([\w:]+)', fnpath)
    if m:
        # a method of `impl Trait for Type`: Verus names it after the type, also for types of other crates (std::net::udp::UdpSocket::send)
        ty = m.group(1).split('::')[-1]
        if fnkey.endswith('::%s::%s' % (ty, last_seg(fnpath))) or fnkey.endswith('::%s::_VERUS_VERIFIED_%s' % (ty, last_seg(fnpath))):
            return True
    return fnkey.startswith('lib::%s::' % mod) and (fnkey.endswith('::' + last_seg(fnpath)) or fnkey.endswith('::_VERUS_VERIFIED_' + last_seg(fnpath)))


def decide(pid, uni, ana, known):
    obl = uni.for_property(pid)
    failed = {k: v for k, v in ana['failed'].items() if k in obl}
    # a caller of a NEW helper that has no contract yet cannot be verified against facts the helper hides: its failing
    # non-panic obligations are inconclusive, not violations
    hidden = {}
    from rustscan import Source as _Src
    _bodies = {}

    def body_of(fname, fn_last):
        key = (fname, fn_last)
        if key not in _bodies:
            try:
                txt = open(os.path.join(REPO, 'src', fname)).read()
                spans = [(n, a, e) for (n, a, e) in _Src(txt).fn_spans() if n == fn_last]
                _bodies[key] = '\n'.join(txt[a:e] for (_, a, e) in spans)
            except OSError:
                _bodies[key] = ''
        return _bodies[key]

    for oid, descs in list(failed.items()):
        # where did the failure occur?  (the failing location, not the function the clause belongs to)
        used_all = []
        every = True
        for dsc in descs:
            pr = dsc.get('primary') or {}
            fname = os.path.basename((pr.get('woven') or '').split(':')[0])
            fn_last = pr.get('fn') or (last_seg(obl[oid]['fn']) if obl[oid]['fn'] else None)
            if not fname or not fn_last:
                every = False
                continue
            names = uni.auto_helpers.get(fname, [])
            body = body_of(fname, fn_last)
            used = [n for n in names if n != fn_last and re.search(r'\b%s\(' % re.escape(n), body)]
            if used:
                used_all += used
            else:
                every = False
        if used_all and every:
            hidden[oid] = sorted(set(used_all))
    for oid in hidden:
        failed.pop(oid, None)
    # failures INSIDE a new helper that has no contract: it cannot rely on anything its callers know (invariants,
    # argument ranges), so a failing check in it is undecided, never an alarm
    helper_fail = [oid for oid in failed if obl[oid]['kind'] == 'helper']
    for oid in helper_fail:
        failed.pop(oid)
    # a failed panic-freedom obligation (real-line precondition / overflow) makes the verifier continue under an
    # impossible assumption, so other failures in the same function may be mere consequences of it.  They stay alarms for
    # the properties the panic itself violates; for any other property they are reported as undecided.
    panicking = {}
    aux_only = set()
    for oid, descs in ana['failed'].items():
        o = uni.oblig.get(oid)
        if o and o['kind'] == 'nopanic':
            if all(d.get('aux') for d in descs):
                aux_only.add(oid)       # only untagged bookkeeping clauses failed: no impossible assumption is involved
            else:
                panicking[(o['file'], last_seg(o['fn']))] = set(o['props'])
    # a function whose bookkeeping clauses fail TOGETHER WITH tagged obligations: the tagged ones say which property is
    # affected; the bookkeeping failure alone would only point at the function's general property
    for oid in aux_only:
        o = uni.oblig[oid]
        key = (o['file'], last_seg(o['fn']))
        tagged_in_fn = [k for k in ana['failed'] if k != oid and uni.oblig.get(k) and uni.oblig[k]['kind'] != 'nopanic'
                        and uni.oblig[k]['fn'] and (uni.oblig[k]['file'], last_seg(uni.oblig[k]['fn'])) == key]
        if tagged_in_fn:
            failed.pop(oid, None)
    shadowed = {}
    for oid in list(failed):
        o = obl[oid]
        key = (o['file'], last_seg(o['fn'])) if o['fn'] else None
        if o['kind'] != 'nopanic' and key in panicking and pid not in panicking[key]:
            shadowed[oid] = key
            failed.pop(oid)
    kf = [k for k in known if k['property'] == pid]
    known_hit, new = {}, {}
    for oid, descs in failed.items():
        hit = [k for k in kf if k['obligation'] == oid]
        if hit:
            known_hit[oid] = (hit[0], descs)
        else:
            new[oid] = descs
    # functions hosting this property's obligations must have been verified (vacuity / completeness guard)
    inconclusive = list(ana['inconclusive'])
    for oid in helper_fail:
        inconclusive.append('a check inside the new, uncontracted helper %s fails (%s): undecided' % (obl[oid]['fn'], oid))
    for oid, key in shadowed.items():
        inconclusive.append('obligation %s fails, but %s::%s also has a failing panic-freedom obligation that may be its cause: undecided for this property' % (oid, key[0], key[1]))
    for oid, used in hidden.items():
        inconclusive.append('obligation %s fails, but its function now calls the new helper(s) %s which have no contract yet: undecided' % (oid, ', '.join(used)))
    hosts = sorted(set((o['file'], o['fn']) for o in obl.values() if o['fn'] and not uni.fn_external.get((o['file'], o['fn']))))
    host_results = []
    for (fname, fnpath) in hosts:
        keys = [k for k in ana['fn_results'] if fn_key_matches(k, fname, fnpath)]
        if not keys and not ana['compile_error']:
            inconclusive.append('function %s (%s) does not appear in the Verus function breakdown' % (fnpath, fname))
        for k in keys:
            r = ana['fn_results'][k]
            host_results.append({'function': k, **r})
    # an unattributed failure inside a host function is inconclusive for this property
    for d in ana['unattributed']:
        p = d.get('primary') or {}
        for (fname, fnpath) in hosts:
            if p.get('fn') == last_seg(fnpath) and p.get('woven', '').startswith(fname):
                inconclusive.append('failure in %s that no obligation covers: %s at %s' % (fnpath, d['message'][:120], p.get('where')))
    undecided_here = bool(hidden or helper_fail or shadowed)
    return obl, new, known_hit, inconclusive, host_results, undecided_here


WITNESS_PROPS = ('C01', 'C02', 'C04', 'C07', 'C08', 'C15', 'C16', 'C03', 'C05', 'C06', 'C09', 'C12', 'C13')
LISTENER_PROPS = ('C03', 'C05', 'C06', 'C09', 'C12')
_witness_cache = {}


def witness_tool(pid, w):
    return 'listener' if (w or '').startswith('server config') else 'scenarios'


def find_witness(pid, tier):
    """bounded scenario sweep against the REAL Worker (replay crate); returns the first witness line for pid or None"""
    key = (tier, pid in LISTENER_PROPS)
    if key not in _witness_cache:
        if pid in LISTENER_PROPS:
            args = ['cargo', 'run', '--offline', '-q', '--release', '--bin', 'listener', '--', 'all']
        else:
            args = ['cargo', 'run', '--offline', '-q', '--release', '--bin', 'scenarios', '--', 'all'] + (['--quick'] if tier == 'quick' else [])
        p = subprocess.run(args, cwd=replay_dir(), env=dict(os.environ, CARGO_NET_OFFLINE='true'),
                           stdout=subprocess.PIPE, stderr=subprocess.DEVNULL, text=True)
        _witness_cache[key] = [l for l in p.stdout.split('\n') if l.startswith('WITNESS')]
        if _witness_cache[key] and pid in LISTENER_PROPS and p.returncode == 1:
            # real sockets: repeat with a generous time-out; only what shows up again counts
            p = subprocess.run(args, cwd=replay_dir(), env=dict(os.environ, CARGO_NET_OFFLINE='true', VERIF_NET_TIMEOUT_MS='3000'),
                               stdout=subprocess.PIPE, stderr=subprocess.DEVNULL, text=True)
            _witness_cache[key] = [l for l in p.stdout.split('\n') if l.startswith('WITNESS')]
        if (p.returncode >= 128 or p.returncode < 0) and pid in LISTENER_PROPS:
            # the harness hosts the servers in its own process: an abort (failed allocation) or a panic of the listener thread
            # that takes the process down is a C05 witness; the last PROBE line names the datagram
            probes = [l for l in p.stdout.split('\n') if l.startswith('PROBE ')]
            _witness_cache[key].append('WITNESS property=C05 (1 case(s)); first: %s: the process hosting the server terminated abnormally (exit status %d)'
                                       % (probes[-1][6:] if probes else 'server config ?: unknown datagram', p.returncode))
    for l in _witness_cache[key]:
        if l.startswith('WITNESS property=%s ' % pid):
            return l.split('first: ', 1)[-1]
    if pid == 'C09':
        # C09 also has a transfer-level aspect (the worker uses the negotiated values): ask the scenario sweep as well
        p = subprocess.run(['cargo', 'run', '--offline', '-q', '--release', '--bin', 'scenarios', '--', 'C09', '--quick'], cwd=replay_dir(),
                           env=dict(os.environ, CARGO_NET_OFFLINE='true'), stdout=subprocess.PIPE, stderr=subprocess.DEVNULL, text=True)
        for l in p.stdout.split('\n'):
            if l.startswith('WITNESS property=C09 '):
                return l.split('first: ', 1)[-1]
    if pid in ('C13', 'C07'):
        # C13 / C07 also have a listener-level aspect (which clean policy a worker is started with; whether the peer's ERROR reaches a
        # single-port transfer): ask the real servers as well
        for tmo in ('400', '3000'):
            p = subprocess.run(['cargo', 'run', '--offline', '-q', '--release', '--bin', 'listener', '--', pid], cwd=replay_dir(),
                               env=dict(os.environ, CARGO_NET_OFFLINE='true', VERIF_NET_TIMEOUT_MS=tmo), stdout=subprocess.PIPE, stderr=subprocess.DEVNULL, text=True)
            hits = [l for l in p.stdout.split('\n') if l.startswith('WITNESS property=%s ' % pid)]
            if not hits:
                return None
        return hits[0].split('first: ', 1)[-1]
    return None


def write_replay(pid, oid, o, descs, vr, witness=None):
    os.makedirs(os.path.join(VERIF, 'replays'), exist_ok=True)
    path = os.path.join(VERIF, 'replays', '%s-%s.json' % (pid, re.sub(r'[^\w.\-]', '_', oid)))
    with open(path, 'w') as f:
        json.dump({
            'property': pid, 'failed_obligation': oid, 'obligation_clause': o['text'], 'function': o['fn'], 'file': 'src/' + o['file'],
            'verifier': 'verus (z3)', 'verifier_cmd': vr['cmd'],
            'counterexample': witness,
            'note': ('Verus reports no model; the witness finder (bounded scenario sweep against the real Worker, replay/src/bin/scenarios.rs) '
                     'found the concrete failing run above.') if witness else
                    ('Verus reports no model; the obligation was discharged on the unchanged tree and fails on this tree. '
                     'no-failing-input-found'),
            'verifier_output': [{'message': d['message'], 'primary': d.get('primary'), 'clause': d.get('clause'),
                                 'rendered': d.get('rendered')} for d in descs],
        }, f, indent=1)
    return path


def main():
    ap = argparse.ArgumentParser()
    ap.add_argument('prop')
    ap.add_argument('--tier', default=os.environ.get('VERIF_TIER', 'quick'))
    ap.add_argument('--keep', action='store_true', help='keep the scratch directory')
    ap.add_argument('--show', action='store_true', help='print every diagnostic')
    ap.add_argument('--standins', action='store_true', help='run the bounded stand-ins even with --no-evidence (development)')
    ap.add_argument('--no-evidence', action='store_true', help='do not write evidence / replay files (self test)')
    a = ap.parse_args()
    tier = a.tier if a.tier in ('quick', 'thorough') else 'quick'
    seed = int(os.environ.get('VERIF_SEED', '0') or 0)
    props = load_properties()
    pids = sorted(props) if a.prop == 'all' else [a.prop]
    for p in pids:
        if p not in props:
            print('unknown property %s' % p)
            sys.exit(2)
    t0 = time.time()
    scratch = os.environ.get('VERIF_SCRATCH') or '/var/tmp/verif-scratch-%d' % os.getpid()
    woven = os.path.join(scratch, 'woven')
    rc = 0
    try:
        os.makedirs(scratch, exist_ok=True)
        try:
            info = weave.weave_all(os.path.join(REPO, 'src'), os.path.join(VERIF, 'contracts'), os.path.join(VERIF, 'spec'), woven)
        except AnchorError as ex:
            print('INCONCLUSIVE: anchor lost: %s' % ex)
            sys.exit(2)
        uni = Universe(info)
        uni_full = uni
        pre_quarantined = set()
        if info.get('auto_quarantined'):
            # anchors were lost: the full universe (for "which properties are affected") comes from the unchanged sidecars
            pre_quarantined = set(tuple(x.split('::', 1)) for x in info['auto_quarantined'])
            uni_full = FullUniverse(pre_quarantined, uni)
        vr = run_verus(woven, tier, scratch)
        ana = analyse(info, uni, vr)
        # generic closure rule: a helper item (const / fn) that verified code uses but that no sidecar mentions is
        # brought under Verus with an empty contract (body checked, nothing promised) and the run is repeated
        auto_items = {}
        for _round in range(4):
            if not ana['compile_error']:
                break
            new_items = False
            for d in vr['diags']:
                m = re.search(r'cannot use (function|type|constant) `lib::(\w+)::([\w:]+)` which is ignored', d.get('message', ''))
                if not m:
                    continue
                mod, path = m.group(2), m.group(3)
                fname = mod + '.rs'
                if fname not in info['files'] or (fname, path) in auto_items:
                    continue
                txt = open(os.path.join(REPO, 'src', fname)).read()
                name = path.split('::')[-1]
                if re.search(r'(?m)^\s*(pub(\([a-z]+\))?\s+)?const\s+%s\b' % re.escape(name), txt):
                    auto_items[(fname, path)] = ('item', 'const ' + name, ['#[verus_verify]'])
                    new_items = True
                elif re.search(r'\bfn\s+%s\b' % re.escape(name), txt):
                    auto_items[(fname, path)] = ('fn', path, ['#[verus_verify]'])
                    new_items = True
            if not new_items:
                break
            extra = {}
            for (fname, path), blk in auto_items.items():
                extra.setdefault(fname, []).append(blk)
            try:
                info = weave.weave_all(os.path.join(REPO, 'src'), os.path.join(VERIF, 'contracts'), os.path.join(VERIF, 'spec'), woven, extra_blocks=extra)
            except AnchorError as ex:
                break
            uni = Universe(info)
            vr = run_verus(woven, tier, scratch)
            ana = analyse(info, uni, vr)
        # degraded mode: a changed function no longer compiles with its in-body proof hints (they mention locals that
        # are gone).  Re-weave without the hints of exactly those functions; obligations of such a function that then
        # fail are NOT reported on the verifier's word alone -- only if the witness finder shows a concrete failing run.
        degraded = set()
        if ana['compile_error']:
            for d in vr['diags']:
                if d.get('level') != 'error':
                    continue
                for sp in d.get('spans', []):
                    loc = locate(info, os.path.basename(sp['file_name']), sp['line_start'], sp.get('column_start'))
                    if loc and loc['kind'] == 'ins' and loc['block']['directive'] in weave.HINT_DIRECTIVES:
                        degraded.add((loc['file'], split_args(loc['block']['args'])[0]))
            if degraded:
                extra = {}
                for (fname, path), blk in auto_items.items():
                    extra.setdefault(fname, []).append(blk)
                try:
                    info = weave.weave_all(os.path.join(REPO, 'src'), os.path.join(VERIF, 'contracts'), os.path.join(VERIF, 'spec'), woven,
                                           extra_blocks=extra, skip_hints_for=degraded)
                    uni = Universe(info)
                    vr = run_verus(woven, tier, scratch)
                    ana = analyse(info, uni, vr)
                except AnchorError as ex:
                    print('INCONCLUSIVE: anchor lost: %s' % ex)
                    sys.exit(2)
        # quarantine: if the crate still does not compile and the errors sit inside contracted functions (their
        # invariants mention locals that were renamed, loops were restructured, ...), those functions are cut out
        # (external_body, contract assumed) so that everything else is still decided; their own obligations are
        # undecided unless the witness finder produces a concrete failing run.
        quarantined = set(pre_quarantined)
        stripped = set()
        for _round in range(5):
            if not ana['compile_error']:
                break
            q = set()
            for d in vr['diags']:
                if d.get('level') != 'error':
                    continue
                for sp in d.get('spans', []):
                    loc = locate(info, os.path.basename(sp['file_name']), sp['line_start'], sp.get('column_start'))
                    if not loc:
                        continue
                    if loc['kind'] == 'ins' and loc['block']['directive'] not in ('top', 'append', 'item', 'crate-attrs'):
                        q.add((loc['file'], split_args(loc['block']['args'])[0]))
                    elif loc['kind'] == 'src' and loc['fn']:
                        for (f2, p2) in uni.contracted:
                            if f2 == loc['file'] and last_seg(p2) == loc['fn']:
                                q.add((f2, p2))
            q = set(x for x in q if x in uni_full.contracted or x in uni.contracted)
            again = q & quarantined
            if again - stripped:
                stripped |= again          # still failing although quarantined: drop the contract as well
            elif not (q - quarantined):
                break
            quarantined |= q
            extra = {}
            for (fname, path), blk in auto_items.items():
                extra.setdefault(fname, []).append(blk)
            try:
                info = weave.weave_all(os.path.join(REPO, 'src'), os.path.join(VERIF, 'contracts'), os.path.join(VERIF, 'spec'), woven,
                                       extra_blocks=extra, skip_hints_for=degraded, quarantine=quarantined, strip=stripped)
            except AnchorError as ex:
                print('INCONCLUSIVE: anchor lost: %s' % ex)
                sys.exit(2)
            uni = Universe(info)
            vr = run_verus(woven, tier, scratch)
            ana = analyse(info, uni, vr)
        degraded |= quarantined
        trusted, counts = scan_trusted(woven)
        known = load_known_findings()
        canary = None
        if tier == 'thorough' and not ana['compile_error']:
            try:
                canary = canary_pass(scratch, uni)
            except AnchorError as ex:
                ana['inconclusive'].append('canary pass: anchor lost: %s' % ex)
            if canary and canary[1]:
                for c in canary[1]:
                    ana['inconclusive'].append('VACUITY: assert(false) verified in %s -- its precondition / invariant is contradictory' % c)
        if a.show:
            for d in vr['diags']:
                if d['level'] == 'error':
                    oid, desc = attribute(d, info, uni)
                    print('--', oid, '|', d['message'][:200], '|', desc.get('primary'), '|', (desc.get('clause') or {}).get('text'))
            for k, r in sorted(ana['fn_results'].items()):
                print('   fn %-60s %s %5d ms rlimit %d' % (k, 'ok  ' if r['success'] else 'FAIL', r['time_ms'], r['rlimit']))
            for x in ana['inconclusive']:
                print('   inconclusive:', x)
        for pid in pids:
            obl, new, known_hit, inconclusive, hosts, undecided_here = decide(pid, uni, ana, known)
            prc = 0
            if not obl:
                print('%s: no obligations are tagged with this property (not claimed)' % pid)
                if len(pids) == 1:
                    rc = 2
                continue
            for k in known:
                if k['property'] == pid and k['obligation'].startswith('history.'):
                    # a recorded defect about a history across workers / threads, which no function contract can express;
                    # the thorough tier re-runs its demonstration against the real code
                    note = ''
                    if tier == 'thorough' and REPO == '/repo' and not a.no_evidence:
                        m = re.search(r'--bin (\w+)', k['text'])
                        if m:
                            pr = subprocess.run(['cargo', 'run', '--offline', '-q', '--bin', m.group(1)], cwd=os.path.join(VERIF, 'replay'),
                                                env=dict(os.environ, CARGO_NET_OFFLINE='true'), stdout=subprocess.PIPE, stderr=subprocess.STDOUT, text=True)
                            note = ' [demonstration re-run: %s]' % ('still manifests' if pr.returncode == 1 else 'does NOT manifest any more (exit %d)' % pr.returncode)
                    print('KNOWN-FINDING: property=%s %s %s%s' % (pid, k['obligation'], k['text'][:400], note))
            for oid, (k, descs) in sorted(known_hit.items()):
                print('KNOWN-FINDING: property=%s obligation=%s %s' % (pid, oid, k['text']))
            q_obl = sorted(k for k, v in uni_full.for_property(pid).items() if (v['file'], v['fn']) in quarantined)
            for k in q_obl:
                obl.setdefault(k, uni_full.oblig[k])
            witness = None
            if (new or q_obl) and pid in WITNESS_PROPS:
                witness = find_witness(pid, tier)
            if q_obl and witness and prc == 0 and not new:
                rp = '-'
                if not a.no_evidence:
                    rp = write_replay(pid, q_obl[0], obl[q_obl[0]], [{'message': 'function quarantined: its annotations no longer apply to the changed code'}], vr, witness)
                print('VIOLATION property=%s replay=%s stand-in=%s (the changed function %s can no longer be verified; concrete failing run: %s)' % (pid, rp, witness_tool(pid, witness), obl[q_obl[0]]['fn'], witness[:200]))
                prc = 1
            elif q_obl and prc == 0 and not new:
                inconclusive = list(inconclusive) + ['%d obligation(s) of this property live in function(s) whose annotations no longer apply to the changed code (%s); no concrete failing run found: undecided'
                                                     % (len(q_obl), ', '.join(sorted(set(obl[k]['fn'] for k in q_obl))))]
            degraded_only = []
            for oid, descs in sorted(new.items()):
                in_degraded = (obl[oid]['file'], obl[oid]['fn']) in degraded
                if in_degraded and not witness:
                    degraded_only.append(oid)
                    continue
                path = write_replay(pid, oid, obl[oid], descs, vr, witness) if not a.no_evidence else '-'
                print('VIOLATION property=%s replay=%s obligation=%s %s' % (pid, path, oid, ('witness: ' + witness[:160]) if witness else 'no-failing-input-found'))
                for d in descs[:3]:
                    print('    %s at %s | %s' % (d['message'], (d.get('primary') or {}).get('where'), (d.get('clause') or {}).get('text', '')))
                prc = 1
            if ana['compile_error'] and prc == 0 and pid in WITNESS_PROPS and obl:
                # the changed code is outside the verifier's reach (unsupported construct / does not compile with the
                # contracts): no proof either way.  The bounded witness finder stands in; only a concrete failing run
                # of the real code raises an alarm.
                w = find_witness(pid, tier)
                if w:
                    rp = '-'
                    if not a.no_evidence:
                        os.makedirs(os.path.join(VERIF, 'replays'), exist_ok=True)
                        rp = os.path.join(VERIF, 'replays', '%s-witness.json' % pid)
                        with open(rp, 'w') as f:
                            json.dump({'property': pid, 'failed_obligation': 'bounded stand-in: scenario sweep against the real Worker (the changed code could not be verified: %s)' % '; '.join(ana['inconclusive'][:2])[:400],
                                       'obligation_clause': 'executable twin of the property oracle in replay/src/bin/scenarios.rs', 'function': 'Worker::send / Worker::receive', 'file': 'src/worker.rs, src/window.rs',
                                       'verifier': 'bounded execution of the real code', 'counterexample': w,
                                       'replay_cmd': 'cd /verif/replay && cargo run --offline -q --release --bin %s -- %s' % (witness_tool(pid, w), pid),
                                       'verifier_output': [{'message': x} for x in ana['inconclusive'][:5]]}, f, indent=1)
                    print('VIOLATION property=%s replay=%s stand-in=%s (changed code is outside the verifier\'s reach; concrete failing run: %s)' % (pid, rp, witness_tool(pid, w), w[:200]))
                    prc = 1
            if undecided_here and prc == 0 and not new and pid in WITNESS_PROPS:
                # obligations of this property are undecided (uncontracted helper hides facts, failure inside a new helper,
                # consequence of a panic obligation): only a concrete failing run of the real code may raise an alarm
                w = find_witness(pid, tier)
                if w:
                    rp = '-'
                    if not a.no_evidence:
                        os.makedirs(os.path.join(VERIF, 'replays'), exist_ok=True)
                        rp = os.path.join(VERIF, 'replays', '%s-witness.json' % pid)
                        with open(rp, 'w') as f:
                            json.dump({'property': pid, 'failed_obligation': 'undecided obligations: ' + '; '.join(x for x in inconclusive if 'undecided' in x)[:600],
                                       'obligation_clause': 'executable twin of the property oracle in the replay crate', 'function': '(see failed_obligation)', 'file': 'src/',
                                       'verifier': 'verus left the obligations undecided; bounded execution of the real code found a failing run', 'counterexample': w,
                                       'replay_cmd': 'cd /verif/replay && cargo run --offline -q --release --bin %s -- %s' % (witness_tool(pid, w), pid),
                                       'verifier_output': [{'message': x} for x in inconclusive[:6]]}, f, indent=1)
                    print('VIOLATION property=%s replay=%s stand-in=%s (obligations undecided by the verifier; concrete failing run: %s)' % (pid, rp, witness_tool(pid, w), w[:220]))
                    prc = 1
            if degraded_only and prc == 0:
                inconclusive = list(inconclusive) + ['function changed so much that its proof hints no longer apply (%s); obligations %s fail without them and the witness finder found no concrete failing run'
                                                     % (', '.join(sorted('%s::%s' % k for k in degraded)), ', '.join(degraded_only))]
            if prc == 0 and (inconclusive or counts['assume('] or counts['admit(']):
                for x in inconclusive[:10]:
                    print('INCONCLUSIVE: %s' % x)
                if counts['assume('] or counts['admit(']:
                    print('INCONCLUSIVE: assume()/admit() found in the woven crate')
                prc = 2
            standins, cexs = run_standins(pid, tier) if (not a.no_evidence or a.standins) else ([], [])
            for (x, text) in cexs:
                os.makedirs(os.path.join(VERIF, 'replays'), exist_ok=True)
                rpath = os.path.join(VERIF, 'replays', '%s-%s.json' % (pid, x['name']))
                with open(rpath, 'w') as f:
                    json.dump({'property': pid, 'failed_obligation': 'bounded stand-in %s for the assumed contract: %s' % (x['name'], x['assumed_contract']),
                               'obligation_clause': x['assumed_contract'], 'function': x['name'], 'file': 'replay/src/bin/%s.rs' % x['bin'],
                               'verifier': 'bounded execution of the real function (mechanically extracted) against an independent oracle',
                               'counterexample': text, 'replay_cmd': 'cd /verif && python3 tools/extract.py && cd replay && cargo run --offline -q --release --bin %s%s' % (x['bin'], (' -- ' + ' '.join(x['args'][tier])) if x.get('args') else ''),
                               'verifier_output': [{'message': text}]}, f, indent=1)
                print('VIOLATION property=%s replay=%s stand-in=%s (concrete failing input found)' % (pid, rpath, x['name']))
                print('    ' + text.replace('\n', '\n    '))
                prc = 1
            kani_ev, kani_fail, kani_out = run_kani(pid) if not a.no_evidence else (None, [], '')
            for h in kani_fail:
                os.makedirs(os.path.join(VERIF, 'replays'), exist_ok=True)
                rpath = os.path.join(VERIF, 'replays', '%s-kani-%s.json' % (pid, h))
                k = kani_out.find('Checking harness proofs::%s' % h)
                seg = kani_out[k:k + 6000] if k >= 0 else kani_out[-6000:]
                failed_checks = [l.strip() for l in seg.split('\n') if 'FAILURE' in l or 'Failed Checks' in l][:10]
                with open(rpath, 'w') as f:
                    json.dump({'property': pid, 'failed_obligation': 'kani harness %s (complete over all u16)' % h, 'obligation_clause': 'see kani/src/lib.rs',
                               'function': h, 'file': 'kani/src/lib.rs', 'verifier': 'kani 0.68 / cbmc', 'counterexample': failed_checks,
                               'replay_cmd': 'cd /verif/kani && CARGO_NET_OFFLINE=true cargo kani --harness %s -Z concrete-playback --concrete-playback=print' % h,
                               'verifier_output': [{'message': seg[:4000]}]}, f, indent=1)
                print('VIOLATION property=%s replay=%s kani-harness=%s %s' % (pid, rpath, h, '; '.join(failed_checks)[:200]))
                prc = 1
            if kani_ev and kani_ev.get('error') and prc == 0:
                print('INCONCLUSIVE: kani: %s' % kani_ev['error'][:300])
                prc = 2
            for d in standins:
                if d.get('error') and prc == 0:
                    print('INCONCLUSIVE: bounded stand-in %s: %s' % (d['name'], d['error']))
                    prc = 2
            discharged = len(obl) - len(new) - len(known_hit) if prc != 2 else 0
            ev = {
                'property_id': pid, 'tier': tier, 'seed': seed, 'level': ('other' if pid == 'C14' else 'proof'),
                'coverage': {
                    'obligations': len(obl), 'discharged': max(discharged, 0),
                    'checker_cmd': 'python3 tools/check.py %s --tier %s   [= weave /repo/src + contracts into scratch; then: %s]' % (pid, tier, vr['cmd']),
                    'trusted_base': trusted,
                    'backend': 'verus 0.2026.09.13 / z3',
                    'functions_under_contract': hosts,
                    'solver_time_ms': sum(h['time_ms'] for h in hosts),
                    'crate_verified_fns': ana.get('verified'), 'crate_failed_fns': ana.get('errors'),
                    'normalisations': info['normalisations'],
                    'samples': [{'obligation': k, 'function': v['fn'], 'clause': v['text']} for k, v in sorted(obl.items())][:40],
                    'all_obligation_ids': sorted(obl),
                    'known_findings_hit': sorted(known_hit),
                    'auto_included_helper_items': sorted('%s:%s' % k for k in auto_items),
                    'bounded_standins': standins,
                    'kani_complete_harnesses': kani_ev,
                    'assumed_contract_clauses': [{'clause': k, 'function': v['fn'], 'text': v['text']} for k, v in sorted(uni.assumed.items()) if pid in v['props']],
                    'inconclusive': inconclusive[:10],
                    'verus_wall_s': round(vr['wall'], 2),
                    'vacuity_canaries': ({'inserted': canary[0], 'verified_false': canary[1]} if canary else 'thorough tier only'),
                    'explanation': ('%d of %d proof obligations (Verus) discharged over %d functions of the real source in this run; next to the proof, %d bounded '
                                    'program(s) executed the real code against an executable twin of the specification (%s): %d cases in total, %d counterexample(s). '
                                    'The bounded part is labelled bounded and is not counted as proved.%s'
                                    % (max(discharged, 0), len(obl), len(hosts), len(standins), ', '.join(d.get('name', '?') for d in standins) or 'none',
                                       sum(d.get('cases', 0) for d in standins), len(cexs),
                                       ' For C14 the interoperation statement itself rests on the bounded program only; the proof covers the client-side obligations.' if pid == 'C14' else '')),
                    'evaluations': max(sum(d.get('cases', 0) for d in standins), 0) + len(obl),
                },
                'assumptions': [
                    'soundness of Verus 0.2026.09.13 and Z3; --no-trait-conflicts',
                    'every item listed in coverage.trusted_base (assumed specifications of std, external_body project glue)',
                    'normalisations N1-N7 listed in coverage.normalisations preserve semantics (tools/normtest.py runs the crate\'s tests on the normalised text alone)',
                    'partial correctness only for functions marked exec_allows_no_decreases_clause',
                ],
                'wall_s': round(time.time() - t0, 2),
                'violations': len(new) + len(cexs) + len(kani_fail),
            }
            if not a.no_evidence:
                os.makedirs(os.path.join(VERIF, 'evidence'), exist_ok=True)
                with open(os.path.join(VERIF, 'evidence', pid + '.json'), 'w') as f:
                    json.dump(ev, f, indent=1)
            if prc == 0:
                print('%s: OK  %d/%d obligations discharged over %d functions (verus wall %.1fs)' % (pid, discharged, len(obl), len(hosts), vr['wall']))
            rc = max(rc, prc) if prc != 2 or rc == 0 else rc
            if prc == 1:
                rc = 1
    finally:
        if not a.keep:
            shutil.rmtree(scratch, ignore_errors=True)
        else:
            print('scratch kept at', scratch)
    sys.exit(rc)


if __name__ == '__main__':
    try:
        main()
    except SystemExit:
        raise
    except BaseException as ex:      # an internal error of the machinery is never an alarm
        import traceback
        traceback.print_exc()
        print('INCONCLUSIVE: internal error of the check machinery (%s): undecided' % type(ex).__name__)
        sys.exit(2)
