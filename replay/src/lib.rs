//! Witness finder / replay harness: drives the REAL `tftpd::Worker` through the public `Socket`
//! trait with a scripted in-memory peer.  It never decides a property; it only demonstrates a
//! failing input against the real code when a contract obligation has failed.
use std::error::Error;
use std::net::SocketAddr;
use std::path::PathBuf;
use std::sync::{Arc, Mutex};
use std::time::Duration;
use tftpd::{Packet, Socket, Worker};

/// What the scripted peer does at one receive attempt of the worker.
pub enum Step {
    /// deliver this packet
    Reply(Packet),
    /// the receive attempt times out
    Timeout,
}

type Script = Box<dyn FnMut(&[Packet]) -> Step + Send>;

/// In-memory socket: every `send` is logged, every `recv` asks the script.
pub struct Scripted {
    log: Arc<Mutex<Vec<Packet>>>,
    script: Mutex<Script>,
    /// sleep on timeout steps (lets `time.elapsed() >= timeout` become true)
    pub timeout_sleep: Duration,
}

fn clone_packet(p: &Packet) -> Packet {
    Packet::deserialize(&p.serialize().unwrap()).unwrap()
}

impl Socket for Scripted {
    fn send(&self, packet: &Packet) -> Result<(), Box<dyn Error>> {
        self.log.lock().unwrap().push(clone_packet(packet));
        Ok(())
    }
    fn send_to(&self, packet: &Packet, _to: &SocketAddr) -> Result<(), Box<dyn Error>> {
        self.send(packet)
    }
    fn recv_with_size(&self, _size: usize) -> Result<Packet, Box<dyn Error>> {
        let log: Vec<Packet> = self.log.lock().unwrap().iter().map(clone_packet).collect();
        let step = (self.script.lock().unwrap())(&log);
        match step {
            Step::Reply(p) => Ok(p),
            Step::Timeout => {
                std::thread::sleep(self.timeout_sleep);
                Err("timeout".into())
            }
        }
    }
    fn recv_from_with_size(&self, size: usize) -> Result<(Packet, SocketAddr), Box<dyn Error>> {
        Ok((self.recv_with_size(size)?, self.remote_addr()?))
    }
    fn remote_addr(&self) -> Result<SocketAddr, Box<dyn Error>> {
        Ok("127.0.0.1:50000".parse().unwrap())
    }
    fn set_read_timeout(&mut self, _dur: Duration) -> Result<(), Box<dyn Error>> {
        Ok(())
    }
    fn set_write_timeout(&mut self, _dur: Duration) -> Result<(), Box<dyn Error>> {
        Ok(())
    }
}

/// Parameters of one worker run.
pub struct Run {
    pub path: PathBuf,
    pub blk: usize,
    pub ws: u16,
    pub repeat: u8,
    pub timeout: Duration,
    pub clean: bool,
}

/// Run the real sender (`Worker::send`) against `script`; returns everything it emitted and whether
/// the worker thread panicked.
pub fn run_send(run: &Run, check_response: bool, script: Script) -> (Vec<Packet>, bool) {
    let log = Arc::new(Mutex::new(Vec::new()));
    let sock = Scripted { log: log.clone(), script: Mutex::new(script), timeout_sleep: run.timeout + Duration::from_millis(1) };
    let w = Worker::new(Box::new(sock), run.path.clone(), run.clean, run.blk, run.timeout, run.ws, run.repeat);
    let h = w.send(check_response).unwrap();
    let panicked = h.join().is_err();
    let out = log.lock().unwrap().iter().map(clone_packet).collect();
    (out, panicked)
}

/// Run the real receiver (`Worker::receive`) against `script`.
pub fn run_receive(run: &Run, script: Script) -> (Vec<Packet>, bool) {
    let log = Arc::new(Mutex::new(Vec::new()));
    let sock = Scripted { log: log.clone(), script: Mutex::new(script), timeout_sleep: run.timeout + Duration::from_millis(1) };
    let w = Worker::new(Box::new(sock), run.path.clone(), run.clean, run.blk, run.timeout, run.ws, run.repeat);
    let h = w.receive().unwrap();
    let panicked = h.join().is_err();
    let out = log.lock().unwrap().iter().map(clone_packet).collect();
    (out, panicked)
}

/// A script that plays a fixed list of steps and then times out forever.
pub fn fixed(steps: Vec<Step>) -> Script {
    let mut it = steps.into_iter();
    Box::new(move |_log| it.next().unwrap_or(Step::Timeout))
}

/// Scratch directory for files (under the replay crate's target dir, never /tmp).
pub fn scratch_dir(name: &str) -> PathBuf {
    let base = std::env::var("VERIF_REPLAY_DIR").unwrap_or_else(|_| concat!(env!("CARGO_MANIFEST_DIR"), "/target/scratch").to_string());
    let d = PathBuf::from(base).join(format!("{}-{}", name, std::process::id()));
    std::fs::create_dir_all(&d).unwrap();
    d
}

pub fn fmt_packet(p: &Packet) -> String {
    match p {
        Packet::Data { block_num, data } => format!("DATA {} len={}", block_num, data.len()),
        Packet::Ack(n) => format!("ACK {}", n),
        Packet::Error { code, msg } => format!("ERROR {:?} {:?}", code, msg),
        Packet::Oack(o) => format!("OACK {:?}", o),
        other => format!("{:?}", other),
    }
}
