//! Demonstration of the recorded finding D7 (C13, clause 2) against the real code: two receive workers own the same
//! path (WRQ #1's reply was lost, the client retransmitted the request, or two requests raced the existence check).
//! Worker #2 completes its upload; worker #1 then times out and, with clean-on-error in force, removes the file of
//! the completed upload.  exit 1 = manifests, 0 = does not.
use std::time::Duration;
use tftpd::Packet;
use verif_replay::*;

fn main() {
    let dir = scratch_dir("d7");
    let path = dir.join("upload.bin");
    let tmo = Duration::from_millis(30);
    let run = Run { path: path.clone(), blk: 8, ws: 1, repeat: 1, timeout: tmo, clean: true };
    // worker #1: the peer never sends anything (its ACK 0 was lost; the client talks to worker #2 instead)
    let p1 = path.clone();
    let h1 = std::thread::spawn(move || {
        let run1 = Run { path: p1, blk: 8, ws: 1, repeat: 1, timeout: tmo, clean: true };
        run_receive(&run1, fixed(vec![]))
    });
    std::thread::sleep(Duration::from_millis(40));
    // worker #2: a complete two-block upload
    let blk = |n: u16, len: usize| Packet::Data { block_num: n, data: vec![n as u8; len] };
    let (log2, _) = run_receive(&run, fixed(vec![Step::Reply(blk(1, 8)), Step::Reply(blk(2, 3))]));
    let completed = log2.iter().any(|p| matches!(p, Packet::Ack(2)));
    let after_w2 = std::fs::read(&path).ok();
    println!("worker #2 acknowledged the final block: {completed}; file after worker #2: {:?} bytes", after_w2.as_ref().map(|v| v.len()));
    let _ = h1.join();
    let after_w1 = std::fs::read(&path).ok();
    println!("after the stale worker #1 gave up: file {:?}", after_w1.as_ref().map(|v| v.len()));
    let manifests = completed && after_w2.map(|v| v.len()) == Some(11) && after_w1.is_none();
    println!("== D7 {}", if manifests { "MANIFESTS: the completed upload was deleted by the earlier, failed transfer" } else { "does not manifest" });
    let _ = std::fs::remove_dir_all(&dir);
    std::process::exit(if manifests { 1 } else { 0 });
}
