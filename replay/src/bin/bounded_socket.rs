//! BOUNDED stand-in (never counted as proved) for the socket layer under C01 / C02 / C07 / C08: the contracts of
//! `UdpSocket::{send,send_to,recv_with_size,recv_from_with_size}` and `ServerSocket::{send,send_to}` rest on assumed
//! specifications of std's UDP calls, and `ServerSocket::recv_with_size` (mutex-guarded channel with `recv_timeout`) is
//! `external_body`; a change in there is invisible to the proof.  This program executes the REAL implementations on loopback:
//!   send    (C01): every packet of a set (DATA with payloads of 0, 1, 511, 512, 1468, 65459..65464 bytes at block numbers
//!                  1 / 65535 / 0, ACK, ERROR with a 600-byte message) through the four real send paths; the datagram that a
//!                  plain std socket receives must be the RFC encoding, byte for byte, neither cut nor padded
//!   recv    (C02): the same datagrams sent from a plain std socket and received with `recv_with_size(blksize)` /
//!                  `recv_from_with_size(blksize)` for blksize = payload length and 65464: the packet comes back whole
//!   channel (C08 / C07): every sequence of 1..4 packets over {ACK 1, ACK 2, ACK 4, DATA 1, ERROR} put into a
//!                  ServerSocket's channel comes out of `recv_with_size` in order, none dropped (runs of identical ACKs may be merged); an
//!                  empty channel fails after about the configured time-out (50 ms), also after `set_read_timeout`
//! exit 1 with a COUNTEREXAMPLE line on a violation.   usage: bounded_socket [send|recv|channel|errors|all]
//! (`errors` = the channel part judged for C07 only: every ERROR gets through, an empty channel times out)
use std::net::{SocketAddr, UdpSocket};
use std::time::{Duration, Instant};
use tftpd::{ErrorCode, Packet, ServerSocket, Socket};

fn fail(what: String) -> ! {
    println!("COUNTEREXAMPLE: {what}");
    std::process::exit(1);
}

/// independent RFC 1350 encoding of the data-phase packets
fn rfc(p: &Packet) -> Vec<u8> {
    match p {
        Packet::Data { block_num, data } => {
            let mut v = vec![0u8, 3, (*block_num >> 8) as u8, (*block_num & 0xff) as u8];
            v.extend_from_slice(data);
            v
        }
        Packet::Ack(n) => vec![0u8, 4, (*n >> 8) as u8, (*n & 0xff) as u8],
        Packet::Error { code, msg } => {
            let c: u16 = match code { ErrorCode::DiskFull => 3, ErrorCode::IllegalOperation => 4, _ => unreachable!() };
            let mut v = vec![0u8, 5, (c >> 8) as u8, (c & 0xff) as u8];
            v.extend_from_slice(msg.as_bytes());
            v.push(0);
            v
        }
        _ => unreachable!(),
    }
}

fn show(p: &Packet) -> String {
    match p {
        Packet::Data { block_num, data } => format!("DATA {block_num} with {} bytes", data.len()),
        other => verif_replay::fmt_packet(other),
    }
}

fn payload(n: usize) -> Vec<u8> {
    (0..n).map(|i| (i * 31 % 251) as u8 + 1).collect()
}

fn packets() -> Vec<Packet> {
    let mut v = Vec::new();
    for (k, n) in [0usize, 1, 511, 512, 1468, 65459, 65460, 65461, 65462, 65463, 65464].iter().enumerate() {
        v.push(Packet::Data { block_num: [1u16, 65535, 0][k % 3], data: payload(*n) });
    }
    v.push(Packet::Ack(0));
    v.push(Packet::Ack(65535));
    v.push(Packet::Error { code: ErrorCode::DiskFull, msg: "x".repeat(600) });
    v
}

fn plain() -> UdpSocket {
    let s = UdpSocket::bind("127.0.0.1:0").unwrap();
    s.set_read_timeout(Some(Duration::from_secs(3))).unwrap();
    s
}

fn expect_datagram(rx: &UdpSocket, p: &Packet, path: &str) {
    let mut buf = vec![0u8; 70000];
    let want = rfc(p);
    match rx.recv_from(&mut buf) {
        Ok((n, _)) => {
            if buf[..n] != want[..] {
                let d = (0..std::cmp::min(n, want.len())).find(|i| buf[*i] != want[*i]);
                fail(format!("{path}({}): the datagram on the wire has {n} bytes, the encoding of the packet has {} (first difference at {:?})", show(p), want.len(), d));
            }
        }
        Err(e) => fail(format!("{path}({}): nothing arrived ({e})", show(p))),
    }
}

fn main() {
    let mode = std::env::args().nth(1).unwrap_or_else(|| "all".to_string());
    let want = |m: &str| mode == "all" || mode == m;
    let mut cases = 0u64;
    if want("send") {
        let rx = plain();
        let to: SocketAddr = rx.local_addr().unwrap();
        let connected = UdpSocket::bind("127.0.0.1:0").unwrap();
        connected.connect(to).unwrap();
        let unconnected = UdpSocket::bind("127.0.0.1:0").unwrap();
        let server_socket = ServerSocket::new(UdpSocket::bind("127.0.0.1:0").unwrap(), to);
        for p in packets() {
            cases += 4;
            if let Err(e) = Socket::send(&connected, &p) { fail(format!("UdpSocket::send({}) failed: {e}", show(&p))); }
            expect_datagram(&rx, &p, "UdpSocket::send");
            if let Err(e) = Socket::send_to(&unconnected, &p, &to) { fail(format!("UdpSocket::send_to({}) failed: {e}", show(&p))); }
            expect_datagram(&rx, &p, "UdpSocket::send_to");
            if let Err(e) = server_socket.send(&p) { fail(format!("ServerSocket::send({}) failed: {e}", show(&p))); }
            expect_datagram(&rx, &p, "ServerSocket::send");
            if let Err(e) = server_socket.send_to(&p, &to) { fail(format!("ServerSocket::send_to({}) failed: {e}", show(&p))); }
            expect_datagram(&rx, &p, "ServerSocket::send_to");
        }
    }
    if want("recv") {
        let tx = plain();
        let mut real = UdpSocket::bind("127.0.0.1:0").unwrap();
        Socket::set_read_timeout(&mut real, Duration::from_secs(3)).unwrap();
        let to = real.local_addr().unwrap();
        for p in packets().into_iter().filter(|p| !matches!(p, Packet::Error { .. })) {   // (C02 is about DATA coming in whole)
            let len = if let Packet::Data { data, .. } = &p { data.len() } else { 512 };
            for blk in [std::cmp::max(len, 8), 65464] {
                if rfc(&p).len() > blk + 4 {
                    continue; // (a datagram longer than the negotiated size + 4 is cut by the receive buffer, by design)
                }
                for from_variant in [false, true] {
                    cases += 1;
                    tx.send_to(&rfc(&p), to).unwrap();
                    let got = if from_variant { real.recv_from_with_size(blk).map(|x| x.0) } else { real.recv_with_size(blk) };
                    let name = if from_variant { "recv_from_with_size" } else { "recv_with_size" };
                    match got {
                        Ok(q) => {
                            if q != p {
                                fail(format!("UdpSocket::{name}({blk}) on the datagram of {}: returned {}", show(&p), show(&q)));
                            }
                        }
                        Err(e) => fail(format!("UdpSocket::{name}({blk}) on the datagram of {}: {e}", show(&p))),
                    }
                }
            }
        }
    }
    if want("channel") || mode == "errors" {
        let alphabet = || vec![
            Packet::Ack(1), Packet::Ack(2), Packet::Ack(4), Packet::Data { block_num: 1, data: vec![7; 8] },
            Packet::Error { code: ErrorCode::DiskFull, msg: "stop".into() },
        ];
        let n = alphabet().len();
        let mut ss = ServerSocket::new(UdpSocket::bind("127.0.0.1:0").unwrap(), "127.0.0.1:50000".parse().unwrap());
        ss.set_read_timeout(Duration::from_millis(50)).unwrap();
        let sender = ss.sender();
        for len in 1..=4u32 {
            for code in 0..n.pow(len) {
                cases += 1;
                let mut c = code;
                let mut seq = Vec::new();
                for _ in 0..len {
                    seq.push(alphabet().swap_remove(c % n));
                    c /= n;
                }
                for p in &seq {
                    sender.send(alphabet().into_iter().find(|q| q == p).unwrap()).unwrap();
                }
                let names: Vec<String> = seq.iter().map(show).collect();
                // what the worker gets to see: one receive call per queued packet, alternating between the two entry points
                let mut seen: Vec<Packet> = Vec::new();
                for i in 0..seq.len() {
                    match if i % 2 == 0 { ss.recv_with_size(512) } else { ss.recv_from_with_size(512).map(|x| x.0) } {
                        Ok(q) => seen.push(q),
                        Err(_) => break,
                    }
                }
                // the queue itself, or the queue with runs of identical acknowledgements merged (a repeated identical ACK carries
                // no information, so merging is not a loss); anything else hides a datagram the server received from the transfer
                fn merged(v: &[Packet]) -> Vec<String> {
                    let mut out: Vec<String> = Vec::new();
                    for p in v {
                        let s = show(p);
                        if !(matches!(p, Packet::Ack(_)) && out.last() == Some(&s)) {
                            out.push(s);
                        }
                    }
                    out
                }
                let seen_names: Vec<String> = seen.iter().map(show).collect();
                if mode == "errors" {
                    // C07 only asks that the peer's ERROR reaches the transfer and that silence is noticed (time-out below)
                    let errs = |v: &[Packet]| v.iter().filter(|p| matches!(p, Packet::Error { .. })).count();
                    if errs(&seen) != errs(&seq) {
                        fail(format!("ServerSocket: the listener routed {names:?} to a transfer, in this order; its receive calls returned {seen_names:?}: an ERROR did not get through"));
                    }
                } else if seen_names != names && !(merged(&seen) == merged(&seq) && seen.len() <= seq.len()) {
                    fail(format!("ServerSocket: the listener routed {names:?} to a transfer, in this order; its receive calls returned {seen_names:?}"));
                }
                if code % 97 == 0 {
                    // and then the channel is empty: the next call fails after about the time-out
                    let t0 = Instant::now();
                    let r = ss.recv_with_size(512);
                    let dt = t0.elapsed();
                    if let Ok(q) = r {
                        fail(format!("ServerSocket: after {names:?} had all been received a further receive call returned {}", show(&q)));
                    }
                    if dt < Duration::from_millis(45) || dt > Duration::from_millis(1500) {
                        fail(format!("ServerSocket: read time-out set to 50 ms, a receive call on an empty channel failed after {dt:?}"));
                    }
                }
            }
        }
    }
    println!("bounded_socket: cases={} violations=0", cases);
}
