//! BOUNDED stand-in (never counted as proved) for the ASSUMED contracts of `convert_file_path` and
//! `validate_file_path` (C03).  The two functions are private; tools/extract.py copies their source text verbatim
//! into src/extracted.rs on every run.  Exhaustive over: 10 served-directory spellings x 5 leading-separator
//! prefixes x all names of 1..=4 segments over a 10-element segment alphabet (incl. the components of the served directory and of a neighbour
//! whose name begins with the directory's name, so that absolute names that share a string prefix with it occur), joined by '/' or '\\' (uniformly or
//! alternating).  Oracle (independent, lexical): a name may be ACCEPTED only if `dir.join(convert(name))`, read
//! component by component, never leaves `dir`.  exit 1 + a concrete (dir, name) on the first violation.
#[path = "../extracted.rs"]
mod extracted;
use extracted::{convert_file_path, validate_file_path};
use std::path::PathBuf;

fn comps(s: &str) -> Vec<&str> {
    s.split('/').filter(|c| !c.is_empty() && *c != ".").collect()
}

/// lexical oracle: does `path` stay inside `dir` at every component?
fn stays_inside(path: &str, dir: &str) -> bool {
    let d = comps(dir);
    let p = comps(path);
    // absolute-ness must agree
    if path.starts_with('/') != dir.starts_with('/') {
        return false;
    }
    if p.len() < d.len() || p[..d.len()] != d[..] {
        return false;
    }
    let mut depth: i64 = 0;
    for c in &p[d.len()..] {
        if *c == ".." {
            depth -= 1;
            if depth < 0 {
                return false;
            }
        } else {
            depth += 1;
        }
    }
    true
}

fn main() {
    let dirs = ["/srv/tftp", "/srv/tftp/", "/srv/tftp//", "srv", "srv/", ".", "./", "/", "/srv/tftp..old", "/srv/tf tp/"];
    let leads = ["", "/", "\\", "//", "\\/"];
    let alphabet = ["..", ".", "a", "b..", "..c", "tftp", "...", "", "srv", "tftp.old"];
    let mut cases: u64 = 0;
    let mut accepted: u64 = 0;
    let mut distinct_accepting_shapes = std::collections::BTreeSet::new();
    for dir in dirs {
        for lead in leads {
            for len in 1..=4usize {
                let n = alphabet.len().pow(len as u32);
                for code in 0..n {
                    let mut c = code;
                    let mut segs = Vec::new();
                    for _ in 0..len {
                        segs.push(alphabet[c % alphabet.len()]);
                        c /= alphabet.len();
                    }
                    for sepmode in 0..3 {
                        let mut name = String::from(lead);
                        for (i, s) in segs.iter().enumerate() {
                            if i > 0 {
                                name.push(match sepmode {
                                    0 => '/',
                                    1 => '\\',
                                    _ => if i % 2 == 0 { '/' } else { '\\' },
                                });
                            }
                            name.push_str(s);
                        }
                        cases += 1;
                        let d = PathBuf::from(dir);
                        let p = d.join(convert_file_path(&name));
                        let ok = validate_file_path(&p, &d);
                        if ok {
                            accepted += 1;
                            distinct_accepting_shapes.insert((dir, segs.clone()));
                            let ps = p.to_str().unwrap().to_string();
                            // the lexical axiom axiom_confined_has_name: accepted by validation (= the executable meaning of
                            // path_confined) and the directory has a final component => the path has one
                            if d.file_name().is_some() && p.file_name().is_none() {
                                println!("COUNTEREXAMPLE: served directory {:?}, request file name {:?}: accepted path {:?} has no final component although the directory has one (axiom_confined_has_name)", dir, name, ps);
                                println!("cases={} accepted={}", cases, accepted);
                                std::process::exit(1);
                            }
                            if !stays_inside(&ps, dir) {
                                println!("COUNTEREXAMPLE: served directory {:?}, request file name {:?}", dir, name);
                                println!("   convert_file_path(name) = {:?}", convert_file_path(&name));
                                println!("   dir.join(..)            = {:?}", ps);
                                println!("   validate_file_path(..)  = true, but the path leaves the directory");
                                println!("cases={} accepted={}", cases, accepted);
                                std::process::exit(1);
                            }
                        }
                    }
                }
            }
        }
    }
    println!("bounded_paths: cases={} accepted={} distinct_accepted={} violations=0", cases, accepted, distinct_accepting_shapes.len());
}
