//! BOUNDED concrete check (never counted as proved) next to the proof of C18: the REAL `Window` against an executable twin
//! of its specification (contracts/window.contract: buffer == contiguous run of pieces of the file ending at the read position;
//! fill hands out the next pieces in order, never exceeds `size`, flags the end with the first short piece and adds nothing
//! afterwards; remove(k) drops exactly the k oldest or fails unchanged; add fails exactly when full; empty appends all
//! pieces in order and clears).
//!   read side : file length 0..=13 x chunk size {1,2,3,4,5,8} x window size {1,2,3,4} x every sequence of 0..=5 operations over
//!               {fill, remove(1), remove(2), remove(len), remove(len+1)}
//!   write side: window size {1,2,3} x every sequence of 0..=6 operations over {add(3 bytes), add(0 bytes), add(5 bytes), empty}
//! exit 1 with a COUNTEREXAMPLE line on a violation.
use std::collections::VecDeque;
use std::fs::File;
use std::io::Write;
use tftpd::Window;
use verif_replay::scratch_dir;

fn content(n: usize) -> Vec<u8> {
    (0..n).map(|i| (i as u8).wrapping_mul(37).wrapping_add(11)).collect()
}

struct Model {
    elems: VecDeque<Vec<u8>>,
    size: u16,
    chunk: usize,
    data: Vec<u8>,
    pos: usize,
    eof: bool,
}

impl Model {
    fn fill(&mut self) -> bool {
        if self.eof {
            return false;
        }
        while (self.elems.len() as u16) < self.size {
            let end = std::cmp::min(self.pos + self.chunk, self.data.len());
            let piece = self.data[self.pos..end].to_vec();
            self.pos = end;
            let short = piece.len() != self.chunk;
            self.elems.push_back(piece);
            if short {
                self.eof = true;
                return false;
            }
        }
        true
    }
    fn remove(&mut self, k: u16) -> bool {
        if k as usize > self.elems.len() {
            return false;
        }
        for _ in 0..k {
            self.elems.pop_front();
        }
        true
    }
}

fn fail(what: String) -> ! {
    println!("COUNTEREXAMPLE: {what}");
    std::process::exit(1);
}

fn main() {
    let dir = scratch_dir("bounded_window");
    let mut cases = 0u64;
    // ---- read side
    let path = dir.join("r.bin");
    for flen in 0..=13usize {
        let data = content(flen);
        std::fs::write(&path, &data).unwrap();
        for chunk in [1usize, 2, 3, 4, 5, 8] {
            for size in [1u16, 2, 3, 4] {
                for nops in 0..=5usize {
                    for code in 0..5usize.pow(nops as u32) {
                        cases += 1;
                        let mut w = Window::new(size, chunk, File::open(&path).unwrap());
                        let mut m = Model { elems: VecDeque::new(), size, chunk, data: data.clone(), pos: 0, eof: false };
                        let mut c = code;
                        let mut trace = Vec::new();
                        for _ in 0..nops {
                            let op = c % 5;
                            c /= 5;
                            let ctx = |t: &Vec<String>| format!("file of {flen} bytes, chunk size {chunk}, window size {size}, operations {}", t.join(", "));
                            if op == 0 {
                                trace.push("fill".to_string());
                                let got = w.fill().map_err(|e| e.to_string());
                                let want = m.fill();
                                if got != Ok(want) {
                                    fail(format!("{}: fill returned {:?}, specification {:?}", ctx(&trace), got, want));
                                }
                            } else {
                                let k = match op { 1 => 1, 2 => 2, 3 => m.elems.len() as u16, _ => m.elems.len() as u16 + 1 };
                                trace.push(format!("remove({k})"));
                                let got = w.remove(k).is_ok();
                                let want = m.remove(k);
                                if got != want {
                                    fail(format!("{}: remove returned ok={got}, specification ok={want}", ctx(&trace)));
                                }
                            }
                            if w.get_elements() != &m.elems || w.len() as usize != m.elems.len() || w.is_empty() != m.elems.is_empty() || w.is_full() != (m.elems.len() as u16 == size) {
                                fail(format!("{}: window holds {:?} (len {}, empty {}, full {}), specification {:?}", ctx(&trace), w.get_elements(), w.len(), w.is_empty(), w.is_full(), m.elems));
                            }
                        }
                    }
                }
            }
        }
    }
    // ---- write side
    let path = dir.join("w.bin");
    let pieces: [&[u8]; 3] = [b"abc", b"", b"12345"];
    for size in [1u16, 2, 3] {
        for nops in 0..=6usize {
            for code in 0..4usize.pow(nops as u32) {
                cases += 1;
                let mut f = File::create(&path).unwrap();
                f.write_all(b"F0").unwrap();
                let mut w = Window::new(size, 5, f);
                let mut buffered: VecDeque<Vec<u8>> = VecDeque::new();
                let mut stored: Vec<u8> = b"F0".to_vec();
                let mut c = code;
                let mut trace = Vec::new();
                for _ in 0..nops {
                    let op = c % 4;
                    c /= 4;
                    let ctx = |t: &Vec<String>| format!("window size {size}, operations {}", t.join(", "));
                    if op < 3 {
                        trace.push(format!("add({:?})", std::str::from_utf8(pieces[op]).unwrap()));
                        let got = w.add(pieces[op].to_vec()).is_ok();
                        let want = (buffered.len() as u16) < size;
                        if want {
                            buffered.push_back(pieces[op].to_vec());
                        }
                        if got != want {
                            fail(format!("{}: add returned ok={got}, specification ok={want}", ctx(&trace)));
                        }
                    } else {
                        trace.push("empty".to_string());
                        if let Err(e) = w.empty() {
                            fail(format!("{}: empty failed: {e}", ctx(&trace)));
                        }
                        for p in buffered.drain(..) {
                            stored.extend_from_slice(&p);
                        }
                    }
                    let on_disk = std::fs::read(&path).unwrap();
                    if w.get_elements() != &buffered || on_disk != stored || w.is_full() != (buffered.len() as u16 == size) {
                        fail(format!("{}: buffer {:?}, file {:?}; specification buffer {:?}, file {:?}", ctx(&trace), w.get_elements(), on_disk, buffered, stored));
                    }
                }
            }
        }
    }
    let _ = std::fs::remove_dir_all(&dir);
    println!("bounded_window: cases={} violations=0", cases);
}
