//! BOUNDED concrete check (never counted as proved) next to the proof of C18: the REAL `Window` against an executable twin
//! of its specification (contracts/window.contract: buffer == contiguous run of pieces of the file ending at the read position;
//! fill hands out the next pieces in order, never exceeds `size`, flags the end with the first short piece and adds nothing
//! afterwards; remove(k) drops exactly the k oldest or fails unchanged; add fails exactly when full; empty appends all
//! pieces in order and clears).
//!   read side : file length 0..=13 x chunk size {1,2,3,4,5,8} x window size {1,2,3,4} x every sequence of 0..=5 operations over
//!               {fill, remove(1), remove(2), remove(len), remove(len+1)}
//!   write side: window size {1,2,3} x every sequence of 0..=6 operations over {add(3 bytes), add(0 bytes), add(5 bytes), empty}
//!   mixed     : six scripted add / remove / empty histories in which the ring buffer wraps, incl. windows of 1100 and 2050 pieces
//!   errors    : four windows over /dev/full (every write fails): empty() must report the error
//! exit 1 with a COUNTEREXAMPLE line on a violation.
use std::collections::VecDeque;
use std::fs::File;
use std::io::Write;
use tftpd::Window;
use verif_replay::scratch_dir;

fn content(n: usize) -> Vec<u8> {
    (0..n).map(|i| (i as u8).wrapping_mul(37).wrapping_add(11)).collect()
}

struct Model {
    elems: VecDeque<Vec<u8>>,
    size: u16,
    chunk: usize,
    data: Vec<u8>,
    pos: usize,
    eof: bool,
}

impl Model {
    fn fill(&mut self) -> bool {
        if self.eof {
            return false;
        }
        while (self.elems.len() as u16) < self.size {
            let end = std::cmp::min(self.pos + self.chunk, self.data.len());
            let piece = self.data[self.pos..end].to_vec();
            self.pos = end;
            let short = piece.len() != self.chunk;
            self.elems.push_back(piece);
            if short {
                self.eof = true;
                return false;
            }
        }
        true
    }
    fn remove(&mut self, k: u16) -> bool {
        if k as usize > self.elems.len() {
            return false;
        }
        for _ in 0..k {
            self.elems.pop_front();
        }
        true
    }
}

fn fail(what: String) -> ! {
    println!("COUNTEREXAMPLE: {what}");
    std::process::exit(1);
}

fn main() {
    let dir = scratch_dir("bounded_window");
    let mut cases = 0u64;
    // usage: bounded_window [read|write|all]   (C01 runs the read side, C02 the write side, C18 everything; the mixed histories run in every mode)
    let mode = std::env::args().nth(1).unwrap_or_else(|| "all".to_string());
    let (read_side, write_side) = (mode != "write", mode != "read");
    // ---- read side
    let path = dir.join("r.bin");
    for flen in if read_side { 0..=13usize } else { 1..=0 } {
        let data = content(flen);
        std::fs::write(&path, &data).unwrap();
        for chunk in [1usize, 2, 3, 4, 5, 8] {
            for size in [1u16, 2, 3, 4] {
                for nops in 0..=5usize {
                    for code in 0..5usize.pow(nops as u32) {
                        cases += 1;
                        let mut w = Window::new(size, chunk, File::open(&path).unwrap());
                        let mut m = Model { elems: VecDeque::new(), size, chunk, data: data.clone(), pos: 0, eof: false };
                        let mut c = code;
                        let mut trace = Vec::new();
                        for _ in 0..nops {
                            let op = c % 5;
                            c /= 5;
                            let ctx = |t: &Vec<String>| format!("file of {flen} bytes, chunk size {chunk}, window size {size}, operations {}", t.join(", "));
                            if op == 0 {
                                trace.push("fill".to_string());
                                let got = w.fill().map_err(|e| e.to_string());
                                let want = m.fill();
                                if got != Ok(want) {
                                    fail(format!("{}: fill returned {:?}, specification {:?}", ctx(&trace), got, want));
                                }
                            } else {
                                let k = match op { 1 => 1, 2 => 2, 3 => m.elems.len() as u16, _ => m.elems.len() as u16 + 1 };
                                trace.push(format!("remove({k})"));
                                let got = w.remove(k).is_ok();
                                let want = m.remove(k);
                                if got != want {
                                    fail(format!("{}: remove returned ok={got}, specification ok={want}", ctx(&trace)));
                                }
                            }
                            if w.get_elements() != &m.elems || w.len() as usize != m.elems.len() || w.is_empty() != m.elems.is_empty() || w.is_full() != (m.elems.len() as u16 == size) {
                                fail(format!("{}: window holds {:?} (len {}, empty {}, full {}), specification {:?}", ctx(&trace), w.get_elements(), w.len(), w.is_empty(), w.is_full(), m.elems));
                            }
                        }
                    }
                }
            }
        }
    }
    // ---- write side
    let path = dir.join("w.bin");
    let pieces: [&[u8]; 3] = [b"abc", b"", b"12345"];
    for size in if write_side { vec![1u16, 2, 3] } else { vec![] } {
        for nops in 0..=6usize {
            for code in 0..4usize.pow(nops as u32) {
                cases += 1;
                let mut f = File::create(&path).unwrap();
                f.write_all(b"F0").unwrap();
                let mut w = Window::new(size, 5, f);
                let mut buffered: VecDeque<Vec<u8>> = VecDeque::new();
                let mut stored: Vec<u8> = b"F0".to_vec();
                let mut c = code;
                let mut trace = Vec::new();
                for _ in 0..nops {
                    let op = c % 4;
                    c /= 4;
                    let ctx = |t: &Vec<String>| format!("window size {size}, operations {}", t.join(", "));
                    if op < 3 {
                        trace.push(format!("add({:?})", std::str::from_utf8(pieces[op]).unwrap()));
                        let got = w.add(pieces[op].to_vec()).is_ok();
                        let want = (buffered.len() as u16) < size;
                        if want {
                            buffered.push_back(pieces[op].to_vec());
                        }
                        if got != want {
                            fail(format!("{}: add returned ok={got}, specification ok={want}", ctx(&trace)));
                        }
                    } else {
                        trace.push("empty".to_string());
                        if let Err(e) = w.empty() {
                            fail(format!("{}: empty failed: {e}", ctx(&trace)));
                        }
                        for p in buffered.drain(..) {
                            stored.extend_from_slice(&p);
                        }
                    }
                    let on_disk = std::fs::read(&path).unwrap();
                    if w.get_elements() != &buffered || on_disk != stored || w.is_full() != (buffered.len() as u16 == size) {
                        fail(format!("{}: buffer {:?}, file {:?}; specification buffer {:?}, file {:?}", ctx(&trace), w.get_elements(), on_disk, buffered, stored));
                    }
                }
            }
        }
    }
    // ---- mixed histories (the ring buffer wraps when pieces are removed from the front and more are added) and large windows
    let path = dir.join("m.bin");
    let scripts: Vec<(u16, Vec<i32>)> = vec![
        // > 0: add a piece of that many bytes, < 0: remove(-k), 0: empty
        (3, vec![4, 4, 4, -2, 4, 2, 0]),
        (4, vec![1, 2, 3, 4, -3, 5, 6, 7, 0, 1, 0]),
        (5, vec![3, 3, 3, 3, 3, -4, 3, 3, 3, 3, -1, 2, 0]),
        (8, vec![8, 8, 8, 8, 8, 8, 8, 8, -5, 1, 2, 3, 4, 5, -2, 6, 7, 0]),
        (1100, std::iter::repeat(8).take(1100).chain(std::iter::once(0)).collect()),
        (2050, std::iter::repeat(3).take(2050).chain([-1025, 0]).collect()),
    ];
    for (size, script) in scripts {
        cases += 1;
        let mut w = Window::new(size, 8, File::create(&path).unwrap());
        let mut buffered: VecDeque<Vec<u8>> = VecDeque::new();
        let mut stored: Vec<u8> = Vec::new();
        let mut n = 0u8;
        for (step, op) in script.iter().enumerate() {
            let ctx = format!("window size {size}, step {} of the script {:?}", step + 1, if script.len() > 24 { &script[script.len() - 6..] } else { &script[..] });
            if *op > 0 {
                n = n.wrapping_add(1);
                let piece = vec![n; *op as usize];
                let want = (buffered.len() as u16) < size;
                if want { buffered.push_back(piece.clone()); }
                if w.add(piece).is_ok() != want { fail(format!("{ctx}: add returned the wrong result")); }
            } else if *op < 0 {
                let k = (-*op) as u16;
                let want = k as usize <= buffered.len();
                if want { for _ in 0..k { buffered.pop_front(); } }
                if w.remove(k).is_ok() != want { fail(format!("{ctx}: remove({k}) returned the wrong result")); }
            } else {
                if let Err(e) = w.empty() { fail(format!("{ctx}: empty failed: {e}")); }
                for p in buffered.drain(..) { stored.extend_from_slice(&p); }
                let on_disk = std::fs::read(&path).unwrap();
                if on_disk != stored {
                    fail(format!("{ctx}: after empty the file holds {} bytes, the {} buffered pieces amount to {} bytes (first difference at {:?})",
                                 on_disk.len(), "previously", stored.len(), on_disk.iter().zip(stored.iter()).position(|(a, b)| a != b)));
                }
            }
            if w.get_elements() != &buffered { fail(format!("{ctx}: buffer differs from the specification")); }
        }
    }
    // ---- a write error is reported, not swallowed: a window over a device on which every write fails (disk full)
    if let (true, Ok(full)) = (write_side, std::fs::OpenOptions::new().write(true).open("/dev/full")) {
        for (size, pieces) in [(1u16, vec![8usize]), (3, vec![8, 8, 3]), (16, vec![512; 16]), (4, vec![4096; 4])] {
            cases += 1;
            let mut w = Window::new(size, 8, full.try_clone().unwrap());
            for (i, n) in pieces.iter().enumerate() {
                if w.add(vec![i as u8; *n]).is_err() { fail(format!("window size {size}: add failed on a window that is not full")); }
            }
            if w.empty().is_ok() {
                fail(format!("window size {size} holding pieces of {:?} bytes over a full device (/dev/full, every write fails with ENOSPC): empty() returned Ok, the write error is lost", pieces));
            }
        }
    }
    let _ = std::fs::remove_dir_all(&dir);
    println!("bounded_window: cases={} violations=0", cases);
}
