//! BOUNDED stand-in (never counted as proved) for C11, through the public `Packet::serialize` / `Packet::deserialize`:
//!  (a) the ASSUMED layout contract of `serialize_data` (its body uses `u16::to_be_bytes`, which Verus cannot specify):
//!      every block number 0..=65535 x every payload of length 0..=3 over {00, 01, FF}, plus payloads of 600 and 65464 bytes;
//!  (b) the ASSUMED std facts the round-trip lemma rests on (axiom_dec_str, axiom_lower_fixed, concat, as_bytes) on samples;
//!  (c) grammar-generated packets of the other five kinds against an independent encoder written from RFC 1350/2347:
//!      strings incl. empty, non-ASCII UTF-8 and 500+ bytes; option values 0, 1, 9, 10, 65464, 2^32, usize::MAX; option lists
//!      of length 0..=3 over the four option kinds; all error codes; all u16 block numbers for ACK.
//! exit 1 with a COUNTEREXAMPLE line on a violation.
use tftpd::{ErrorCode, OptionType, Packet, TransferOption};

fn rfc_opt_name(t: &OptionType) -> &'static str {
    match t {
        OptionType::BlockSize => "blksize",
        OptionType::TransferSize => "tsize",
        OptionType::Timeout => "timeout",
        OptionType::Windowsize => "windowsize",
    }
}

fn rfc_decimal(mut n: usize) -> Vec<u8> {
    if n == 0 {
        return vec![b'0'];
    }
    let mut d = Vec::new();
    while n > 0 {
        d.push(b'0' + (n % 10) as u8);
        n /= 10;
    }
    d.reverse();
    d
}

fn rfc_opts(out: &mut Vec<u8>, opts: &[TransferOption]) {
    for o in opts {
        out.extend_from_slice(rfc_opt_name(&o.option).as_bytes());
        out.push(0);
        out.extend_from_slice(&rfc_decimal(o.value));
        out.push(0);
    }
}

fn rfc_code(c: &ErrorCode) -> u16 {
    match c {
        ErrorCode::NotDefined => 0,
        ErrorCode::FileNotFound => 1,
        ErrorCode::AccessViolation => 2,
        ErrorCode::DiskFull => 3,
        ErrorCode::IllegalOperation => 4,
        ErrorCode::UnknownId => 5,
        ErrorCode::FileExists => 6,
        ErrorCode::NoSuchUser => 7,
    }
}

/// independent encoder, written from the RFCs
fn rfc_encode(p: &Packet) -> Vec<u8> {
    let mut out = Vec::new();
    match p {
        Packet::Rrq { filename, mode, options } | Packet::Wrq { filename, mode, options } => {
            out.push(0);
            out.push(if matches!(p, Packet::Rrq { .. }) { 1 } else { 2 });
            out.extend_from_slice(filename.as_bytes());
            out.push(0);
            out.extend_from_slice(mode.as_bytes());
            out.push(0);
            rfc_opts(&mut out, options);
        }
        Packet::Data { block_num, data } => {
            out.extend_from_slice(&[0, 3, (block_num >> 8) as u8, (block_num & 0xff) as u8]);
            out.extend_from_slice(data);
        }
        Packet::Ack(n) => out.extend_from_slice(&[0, 4, (n >> 8) as u8, (n & 0xff) as u8]),
        Packet::Error { code, msg } => {
            let c = rfc_code(code);
            out.extend_from_slice(&[0, 5, (c >> 8) as u8, (c & 0xff) as u8]);
            out.extend_from_slice(msg.as_bytes());
            out.push(0);
        }
        Packet::Oack(options) => {
            out.extend_from_slice(&[0, 6]);
            rfc_opts(&mut out, options);
        }
    }
    out
}

fn check(p: &Packet, cases: &mut u64) {
    *cases += 1;
    let bytes = match p.serialize() {
        Ok(b) => b,
        Err(e) => {
            println!("COUNTEREXAMPLE: serialize({:?}) is Err({})", short(p), e);
            std::process::exit(1);
        }
    };
    let want = rfc_encode(p);
    if bytes != want {
        println!("COUNTEREXAMPLE: serialize({}) is not the RFC layout: got {:02x?} want {:02x?}", short(p), &bytes[..bytes.len().min(40)], &want[..want.len().min(40)]);
        std::process::exit(1);
    }
    match Packet::deserialize(&bytes) {
        Ok(q) if q == *p => {}
        Ok(q) => {
            println!("COUNTEREXAMPLE: deserialize(serialize(p)) != p for p = {} : got {}", short(p), short(&q));
            std::process::exit(1);
        }
        Err(e) => {
            println!("COUNTEREXAMPLE: deserialize(serialize(p)) is Err({}) for p = {}", e, short(p));
            std::process::exit(1);
        }
    }
}

fn short(p: &Packet) -> String {
    let s = format!("{:?}", p);
    if s.len() > 300 {
        format!("{}... ({} chars)", &s[..300], s.len())
    } else {
        s
    }
}

fn main() {
    let mut cases: u64 = 0;
    // (a) DATA
    let alphabet = [0x00u8, 0x01, 0xFF];
    let mut payloads: Vec<Vec<u8>> = vec![];
    for len in 0..=3usize {
        for code in 0..alphabet.len().pow(len as u32) {
            let mut c = code;
            let mut v = Vec::new();
            for _ in 0..len {
                v.push(alphabet[c % 3]);
                c /= 3;
            }
            payloads.push(v);
        }
    }
    for b in 0..=u16::MAX {
        for d in &payloads {
            check(&Packet::Data { block_num: b, data: d.clone() }, &mut cases);
        }
        check(&Packet::Ack(b), &mut cases);
    }
    for b in [0u16, 1, 255, 256, 0x1234, u16::MAX] {
        check(&Packet::Data { block_num: b, data: (0..600).map(|i| (i % 251) as u8).collect() }, &mut cases);
        check(&Packet::Data { block_num: b, data: vec![0xA5; 65464] }, &mut cases);
    }
    // (b) std facts assumed by the lemmas
    let mut samples: Vec<usize> = (0..=100_000).collect();
    for s in 0..usize::BITS {
        let p = 1usize << s;
        samples.extend_from_slice(&[p - 1, p, p.wrapping_add(1)]);
    }
    samples.push(usize::MAX);
    for n in &samples {
        cases += 1;
        let s = n.to_string();
        if s.is_empty() || !s.bytes().all(|c| c.is_ascii_digit()) || s.parse::<usize>().ok() != Some(*n) || s.as_bytes() != rfc_decimal(*n) {
            println!("COUNTEREXAMPLE: usize::to_string({}) = {:?} violates axiom_dec_str", n, s);
            std::process::exit(1);
        }
    }
    let low: Vec<char> = (0u8..128).filter(|c| !c.is_ascii_uppercase()).map(|c| c as char).collect();
    for a in &low {
        for b in &low {
            cases += 1;
            let s: String = [*a, *b].iter().collect();
            if s.to_lowercase() != s {
                println!("COUNTEREXAMPLE: {:?}.to_lowercase() changes an ASCII string without upper-case letters (axiom_lower_fixed)", s);
                std::process::exit(1);
            }
        }
    }
    // (c) the other kinds
    let strings: Vec<String> = vec![
        "".into(), "a".into(), "octet".into(), "dir/file.txt".into(), "späße-файл-文件-🦀".into(), "x".repeat(517), "é".repeat(300),
        "BlkSize".into(), "with space".into(), "\u{7f}\u{80}\u{7ff}\u{800}\u{ffff}\u{10000}".into(),
    ];
    let values = [0usize, 1, 9, 10, 512, 65464, 1 << 32, usize::MAX];
    let kinds = [OptionType::BlockSize, OptionType::TransferSize, OptionType::Timeout, OptionType::Windowsize];
    let mut single: Vec<TransferOption> = vec![];
    for k in kinds {
        for v in values {
            single.push(TransferOption { option: k, value: v });
        }
    }
    let mut lists: Vec<Vec<TransferOption>> = vec![vec![]];
    for a in &single {
        lists.push(vec![*a]);
    }
    for (i, a) in single.iter().enumerate() {
        for (j, b) in single.iter().enumerate() {
            if (i + j) % 3 == 0 {
                lists.push(vec![*a, *b]);
            }
            if (i * 7 + j) % 11 == 0 {
                lists.push(vec![*a, *b, single[(i + j) % single.len()]]);
            }
        }
    }
    for l in &lists {
        check(&Packet::Oack(l.clone()), &mut cases);
    }
    for (i, f) in strings.iter().enumerate() {
        for (j, m) in strings.iter().enumerate() {
            for (k, l) in lists.iter().enumerate() {
                if (i + j + k) % 5 != 0 {
                    continue;
                }
                check(&Packet::Rrq { filename: f.clone(), mode: m.clone(), options: l.clone() }, &mut cases);
                check(&Packet::Wrq { filename: f.clone(), mode: m.clone(), options: l.clone() }, &mut cases);
            }
        }
    }
    let codes = [
        ErrorCode::NotDefined, ErrorCode::FileNotFound, ErrorCode::AccessViolation, ErrorCode::DiskFull,
        ErrorCode::IllegalOperation, ErrorCode::UnknownId, ErrorCode::FileExists, ErrorCode::NoSuchUser,
    ];
    for c in codes {
        for m in &strings {
            check(&Packet::Error { code: c, msg: m.clone() }, &mut cases);
        }
    }
    println!("bounded_codec: cases={} violations=0", cases);
}
