//! BOUNDED stand-in / witness finder (never counted as proved) for C10 (and the decoder half of C11): executes the REAL
//! `Packet::deserialize` against an independent decoder written from RFC 1350/2347 (an executable twin of the relation
//! `decodes_to` in spec/verif_spec.rs) on
//!   (a) every byte string of length 0..=6 over {00,01,02,03,04,05,06,07,08,'a','5',ff},
//!   (b) every opcode prefix 0..=65535 followed by four short tails,
//!   (c) structured datagrams: opcode 1, 2 or 6 followed by every sequence of 0..=5 tokens over
//!       {NUL, "a", "octet", "blksize", "BlkSize", "tsize", "timeout", "windowsize", "12", "0", "x1", ff, 2^64 as decimal}.
//!   (d) ERROR messages and request file names of 0..150 (and 255..23000) two-, three- and four-byte characters after 0..3 ASCII
//!       bytes, terminated, unterminated and cut inside the last character (about 7600 datagrams).
//! Checked: no panic; Ok(p) <=> the twin decodes p (so: short headers, unknown opcodes / error codes, missing NUL
//! terminators and non-numeric values of recognised options are rejected, and nothing else is); stability: whatever is
//! accepted re-encodes to something that decodes to the same packet.   usage: bounded_decoder [C10|C11] (C10: without the
//! exactness comparison, which is C11's).   exit 1 with a COUNTEREXAMPLE line on a violation.
use tftpd::{ErrorCode, OptionType, Packet, TransferOption};

fn cstr(buf: &[u8], start: usize) -> Option<(String, usize)> {
    if start > buf.len() {
        return None;
    }
    let z = buf[start..].iter().position(|b| *b == 0)? + start;
    Some((std::str::from_utf8(&buf[start..z]).ok()?.to_string(), z))
}

fn options(buf: &[u8], mut z: usize) -> Option<Vec<TransferOption>> {
    let mut out = Vec::new();
    while z + 1 < buf.len() {
        let (name, z1) = cstr(buf, z + 1)?;
        let (val, z2) = cstr(buf, z1 + 1)?;
        let t = match name.to_lowercase().as_str() {
            "blksize" => Some(OptionType::BlockSize),
            "tsize" => Some(OptionType::TransferSize),
            "timeout" => Some(OptionType::Timeout),
            "windowsize" => Some(OptionType::Windowsize),
            _ => None,
        };
        if let Some(option) = t {
            out.push(TransferOption { option, value: val.parse::<usize>().ok()? });
        }
        z = z2;
    }
    Some(out)
}

fn rfc_decode(buf: &[u8]) -> Option<Packet> {
    if buf.len() < 2 {
        return None;
    }
    let be = |i: usize| ((buf[i] as u16) << 8) | buf[i + 1] as u16;
    match be(0) {
        1 | 2 => {
            let (filename, z1) = cstr(buf, 2)?;
            let (mode, z2) = cstr(buf, z1 + 1)?;
            let options = options(buf, z2)?;
            Some(if be(0) == 1 { Packet::Rrq { filename, mode, options } } else { Packet::Wrq { filename, mode, options } })
        }
        3 if buf.len() >= 4 => Some(Packet::Data { block_num: be(2), data: buf[4..].to_vec() }),
        4 if buf.len() >= 4 => Some(Packet::Ack(be(2))),
        5 if buf.len() >= 4 => {
            let code = match be(2) {
                0 => ErrorCode::NotDefined,
                1 => ErrorCode::FileNotFound,
                2 => ErrorCode::AccessViolation,
                3 => ErrorCode::DiskFull,
                4 => ErrorCode::IllegalOperation,
                5 => ErrorCode::UnknownId,
                6 => ErrorCode::FileExists,
                7 => ErrorCode::NoSuchUser,
                _ => return None,
            };
            let msg = cstr(buf, 4).map(|x| x.0).unwrap_or_else(|| "(no message)".to_string());
            Some(Packet::Error { code, msg })
        }
        6 => Some(Packet::Oack(options(buf, 1)?)),
        _ => None,
    }
}

/// the datagram being decoded and a progress counter, for the watchdog (a decoder that loops for ever must not hang this program)
static CURRENT: std::sync::Mutex<Vec<u8>> = std::sync::Mutex::new(Vec::new());
static PROGRESS: std::sync::atomic::AtomicU64 = std::sync::atomic::AtomicU64::new(0);

fn check(buf: &[u8], cases: &mut u64, exact: bool) {
    *cases += 1;
    {
        let mut c = CURRENT.lock().unwrap();
        c.clear();
        c.extend_from_slice(buf);
    }
    PROGRESS.store(*cases, std::sync::atomic::Ordering::Relaxed);
    let got = match std::panic::catch_unwind(|| Packet::deserialize(buf).ok()) {
        Ok(g) => g,
        Err(_) => {
            println!("COUNTEREXAMPLE: Packet::deserialize({:02x?}) panicked", buf);
            std::process::exit(1);
        }
    };
    let want = rfc_decode(buf);
    if got.is_some() != want.is_some() {
        println!("COUNTEREXAMPLE: Packet::deserialize({:02x?}) = {:?}, but the bytes denote {:?} under RFC 1350/2347 (accepted <=> denotes a packet)", buf, got, want);
        std::process::exit(1);
    }
    if exact && got != want {
        println!("COUNTEREXAMPLE: Packet::deserialize({:02x?}) = {:?}, but the bytes denote {:?} under RFC 1350/2347", buf, got, want);
        std::process::exit(1);
    }
    if let Some(p) = got {
        let again = p.serialize().ok().and_then(|b| Packet::deserialize(&b).ok());
        if again.as_ref() != Some(&p) {
            println!("COUNTEREXAMPLE: {:02x?} decodes to {:?}, which re-encodes to something that decodes to {:?}", buf, p, again);
            std::process::exit(1);
        }
    }
}

fn main() {
    std::panic::set_hook(Box::new(|_| {}));
    // watchdog: no progress for 20 s means the decoder does not return (totality includes termination)
    std::thread::spawn(|| {
        let mut last = 0u64;
        let mut stalled = 0;
        loop {
            std::thread::sleep(std::time::Duration::from_secs(2));
            let now = PROGRESS.load(std::sync::atomic::Ordering::Relaxed);
            if now == last { stalled += 1; } else { stalled = 0; last = now; }
            if stalled >= 10 {
                let near = CURRENT.lock().map(|c| c.clone()).unwrap_or_default();
                println!("COUNTEREXAMPLE: Packet::deserialize({:02x?}) does not return (no progress for 20 s; datagram number {} of the enumeration)", near, now);
                std::process::exit(1);
            }
        }
    });
    let mut cases = 0u64;
    // C10 asks for totality, the accept/reject boundary and stability; C11 additionally for the exact packet
    let exact = std::env::args().nth(1).map(|a| a != "C10").unwrap_or(true);
    // (a)
    let alpha = [0u8, 1, 2, 3, 4, 5, 6, 7, 8, b'a', b'5', 0xff];
    for len in 0..=6usize {
        for code in 0..alpha.len().pow(len as u32) {
            let mut c = code;
            let mut buf = Vec::with_capacity(len);
            for _ in 0..len {
                buf.push(alpha[c % alpha.len()]);
                c /= alpha.len();
            }
            check(&buf, &mut cases, exact);
        }
    }
    // (b)
    for op in 0..=u16::MAX {
        for tail in [&b""[..], &b"\x00"[..], &b"\x00\x01"[..], &b"\x00\x05a\x00b\x00"[..]] {
            let mut buf = vec![(op >> 8) as u8, op as u8];
            buf.extend_from_slice(tail);
            check(&buf, &mut cases, exact);
        }
    }
    // (c)
    let tokens: [&[u8]; 13] = [b"\x00", b"a", b"octet", b"blksize", b"BlkSize", b"tsize", b"timeout", b"windowsize", b"12", b"0", b"x1", b"\xff", b"18446744073709551616"];
    for op in [1u8, 2, 6] {
        for len in 0..=5usize {
            for code in 0..tokens.len().pow(len as u32) {
                let mut c = code;
                let mut buf = vec![0u8, op];
                for _ in 0..len {
                    buf.extend_from_slice(tokens[c % tokens.len()]);
                    c /= tokens.len();
                }
                check(&buf, &mut cases, exact);
            }
        }
    }
    // (d) long strings of multi-byte characters: every byte length up to 300 (and a few up to 70000) with a character
    // boundary at every offset modulo the character width, as an ERROR message and as a request's file name
    for ch in ["\u{e9}", "\u{20ac}", "\u{1f600}"] {
        for lead in 0..4usize {
            for n in (0..=150usize).chain([255, 256, 257, 511, 512, 513, 16384, 23000]) {
                let text = format!("{}{}", "a".repeat(lead), ch.repeat(n));
                if text.len() > 70000 { continue; }
                let mut e = vec![0u8, 5, 0, 1];
                e.extend_from_slice(text.as_bytes());
                e.push(0);
                check(&e, &mut cases, exact);
                let mut r = vec![0u8, 1];
                r.extend_from_slice(text.as_bytes());
                r.extend_from_slice(b"\0octet\0");
                check(&r, &mut cases, exact);
                // the same without the terminator, and cut inside the last character
                e.pop();
                check(&e, &mut cases, exact);
                e.pop();
                check(&e, &mut cases, exact);
            }
        }
    }
    println!("bounded_decoder: cases={} violations=0", cases);
}
