//! Witness finder: bounded exploration of scripted-peer scenarios against the REAL `tftpd::Worker`, with
//! executable twins of the specification predicates as oracles.  It NEVER decides a property; the runner uses it
//! (a) to look for a concrete failing input after the verifier reported a failed obligation, and (b) when a
//! changed function can no longer carry its proof hints, where only a concrete witness may raise an alarm.
//!
//! usage: scenarios <C01|C02|C04|C07|C08|C15|C16|all> [--quick]      exit 1 = witness found (printed), 0 = none
use std::collections::VecDeque;
use std::error::Error;
use std::net::SocketAddr;
use std::path::PathBuf;
use std::sync::{Arc, Mutex};
use std::time::Duration;
use tftpd::{Packet, Socket, Worker};
use verif_replay::scratch_dir;

const BLK: usize = 8;
const TMO: Duration = Duration::from_millis(3);

#[derive(Clone, Debug, PartialEq)]
enum Fault {
    None,
    /// the n-th DATA/ACK datagram emitted by the worker (1-based, counting every copy) is lost
    DropEmitted(usize),
    /// the peer's n-th reply is lost (the worker sees a timeout instead)
    DropReply(usize),
    /// the peer's n-th reply is delivered twice
    DupReply(usize),
    /// before its n-th reply the peer injects a stale reply (ACK of the block before the last acknowledged / DATA already sent)
    StaleBefore(usize),
    /// the n-th and (n+1)-th datagram emitted by the peer are swapped (receiver scenarios)
    SwapPeer(usize),
    /// a delayed copy of the block with true index `block` arrives just before the n-th datagram emitted by the peer (receiver scenarios)
    InjectOld(usize, u64),
}

struct Shared {
    emitted: Vec<Packet>,
    /// number of worker emissions that happened between consecutive receive calls, with the reply given before them
    after_reply: Vec<(String, usize)>,
}

/// honest RFC 7440 downloading client (peer of send_file)
struct ClientPeer {
    sh: Arc<Mutex<Shared>>,
    st: Arc<Mutex<ClientState>>,
}
struct ClientState {
    seen: usize,         // emitted datagrams already looked at
    expected: u64,       // next true block index wanted
    in_window: u16,      // blocks accepted since the last ACK
    ws: u16,
    got: Vec<u8>,
    done: bool,
    pending: VecDeque<Packet>,
    fault: Fault,
    replies: usize,
    emitted_cnt: usize,
    last_ack: Option<u16>,
    last_reply: String,
    emitted_at_last_recv: usize,
    recv_calls: usize,
    silent_run: usize,   // consecutive receive attempts of the sender that got nothing
}

fn clone_packet(p: &Packet) -> Packet {
    Packet::deserialize(&p.serialize().unwrap()).unwrap()
}

impl ClientPeer {
    fn step(&self) -> Option<Packet> {
        let mut sh = self.sh.lock().unwrap();
        let mut st = self.st.lock().unwrap();
        // book-keeping for the "no transmission on a stale ACK" oracle
        let new_emissions = sh.emitted.len() - st.emitted_at_last_recv;
        let lr = st.last_reply.clone();
        sh.after_reply.push((lr, new_emissions));
        st.emitted_at_last_recv = sh.emitted.len();
        st.recv_calls += 1;
        if st.recv_calls > 4000 + 8 * st.got.len() / BLK {
            st.last_reply = "timeout".into();
            return None;
        }
        if let Some(p) = st.pending.pop_front() {
            st.last_reply = format!("{:?}", p);
            return Some(p);
        }
        let mut reply: Option<u16> = None;
        while st.seen < sh.emitted.len() && reply.is_none() {
            let idx = st.seen;
            st.seen += 1;
            st.emitted_cnt += 1;
            if st.fault == Fault::DropEmitted(st.emitted_cnt) {
                continue;
            }
            if let Packet::Data { block_num, data } = &sh.emitted[idx] {
                if st.done {
                    // the peer dallies: a retransmission after the end means its final ACK was lost; it repeats it
                    reply = Some(((st.expected - 1) % 65536) as u16);
                    continue;
                }
                if *block_num == (st.expected % 65536) as u16 {
                    st.got.extend_from_slice(data);
                    st.expected += 1;
                    st.in_window += 1;
                    if data.len() < BLK {
                        st.done = true;
                        reply = Some(*block_num);
                    } else if st.in_window == st.ws {
                        reply = Some(*block_num);
                    }
                } else {
                    // gap or duplicate: acknowledge the last in-order block again (RFC 1350 / 7440)
                    reply = Some(((st.expected - 1) % 65536) as u16);
                }
            }
        }
        match reply {
            Some(n) => {
                st.in_window = 0;
                st.replies += 1;
                let prev = st.last_ack;
                st.last_ack = Some(n);
                let r = st.replies;
                if st.fault == Fault::DropReply(r) {
                    st.last_reply = "timeout".into();
                    return None;
                }
                if st.fault == Fault::DupReply(r) {
                    st.pending.push_back(Packet::Ack(n));
                }
                if st.fault == Fault::StaleBefore(r) {
                    st.pending.push_back(Packet::Ack(n));
                    let stale = prev.unwrap_or(0);
                    st.last_reply = format!("STALE Ack({})", stale);
                    return Some(Packet::Ack(stale));
                }
                st.last_reply = format!("Ack({})", n);
                Some(Packet::Ack(n))
            }
            None => {
                st.last_reply = "timeout".into();
                None
            }
        }
    }
}

impl Socket for ClientPeer {
    fn send(&self, packet: &Packet) -> Result<(), Box<dyn Error>> {
        self.sh.lock().unwrap().emitted.push(clone_packet(packet));
        Ok(())
    }
    fn send_to(&self, packet: &Packet, _to: &SocketAddr) -> Result<(), Box<dyn Error>> {
        self.send(packet)
    }
    fn recv_with_size(&self, _size: usize) -> Result<Packet, Box<dyn Error>> {
        match self.step() {
            Some(p) => {
                self.st.lock().unwrap().silent_run = 0;
                Ok(p)
            }
            None => {
                self.st.lock().unwrap().silent_run += 1;
                std::thread::sleep(TMO + Duration::from_millis(1));
                Err("timeout".into())
            }
        }
    }
    fn recv_from_with_size(&self, size: usize) -> Result<(Packet, SocketAddr), Box<dyn Error>> {
        Ok((self.recv_with_size(size)?, self.remote_addr()?))
    }
    fn remote_addr(&self) -> Result<SocketAddr, Box<dyn Error>> {
        Ok("127.0.0.1:50000".parse().unwrap())
    }
    fn set_read_timeout(&mut self, _d: Duration) -> Result<(), Box<dyn Error>> {
        Ok(())
    }
    fn set_write_timeout(&mut self, _d: Duration) -> Result<(), Box<dyn Error>> {
        Ok(())
    }
}

/// waits for a worker thread, but not for ever: `None` = it neither finished nor gave up within the deadline
static STUCK: std::sync::atomic::AtomicUsize = std::sync::atomic::AtomicUsize::new(0);
/// after three workers that never ended the remaining runs are skipped (each would cost the full deadline again)
fn too_many_stuck() -> bool {
    STUCK.load(std::sync::atomic::Ordering::SeqCst) >= 3
}
fn join_within(h: std::thread::JoinHandle<()>, secs: u64) -> Option<bool> {
    let (tx, rx) = std::sync::mpsc::channel();
    std::thread::spawn(move || {
        let _ = tx.send(h.join().is_err());
    });
    let r = rx.recv_timeout(Duration::from_secs(secs)).ok();
    if r.is_none() {
        STUCK.fetch_add(1, std::sync::atomic::Ordering::SeqCst);
    }
    r
}

fn file_bytes(len: usize) -> Vec<u8> {
    (0..len).map(|i| ((i * 7 + i / 251) % 251) as u8).collect()
}

struct Verdict {
    violations: Vec<(&'static str, String)>,
}

/// run one download scenario and evaluate the sender oracles
fn download(dir: &PathBuf, len: usize, ws: u16, rep: u8, fault: Fault, verdict: &mut Verdict, label: &str) {
    if too_many_stuck() { return; }
    let path = dir.join("dl.bin");
    let data = file_bytes(len);
    std::fs::write(&path, &data).unwrap();
    let sh = Arc::new(Mutex::new(Shared { emitted: Vec::new(), after_reply: Vec::new() }));
    let peer = ClientPeer {
        sh: sh.clone(),
        st: Arc::new(Mutex::new(ClientState {
            seen: 0, expected: 1, in_window: 0, ws, got: Vec::new(), done: false, pending: VecDeque::new(), fault: fault.clone(),
            replies: 0, emitted_cnt: 0, last_ack: None, last_reply: "start".into(), emitted_at_last_recv: 0, recv_calls: 0, silent_run: 0,
        })),
    };
    let peer_state = peer.st.clone();
    let boxed = Box::new(peer);
    // keep a second handle on the client state through the shared log only; final state is read from the log
    let w = Worker::new(boxed, path.clone(), true, BLK, TMO, ws, rep);
    let h = w.send(false).unwrap();
    let ctx = format!("{label}: download len={len} blksize={BLK} windowsize={ws} repeat={rep} fault={fault:?}");
    let panicked = match join_within(h, 25) {
        Some(p) => p,
        None => {
            verdict.violations.push(("C07", format!("{ctx}: the sender neither completed nor gave up within 25 s")));
            if label.contains("wrap") {
                verdict.violations.push(("C15", format!("{ctx}: a download of more than 65535 blocks neither completed nor gave up within 25 s")));
            }
            if rep > 1 {
                // C16: with a conformant peer that acknowledges every copy the transfer must still complete
                verdict.violations.push(("C16", format!("{ctx}: in duplicate-packets mode the download did not complete within 25 s (the peer acknowledges every copy it receives)")));
            }
            return;
        }
    };
    let sh = sh.lock().unwrap();
    let nblocks = (len / BLK + 1) as u64;
    if panicked {
        verdict.violations.push(("C07", format!("{ctx}: worker thread panicked")));
    }
    // C01 / C07 / C15: every DATA block carries its slice, none beyond the last
    let mut client_copy: Vec<u8> = Vec::new();
    let mut expected: u64 = 1;
    for (k, p) in sh.emitted.iter().enumerate() {
        if let Packet::Data { block_num, data: d } = p {
            // candidate true indices j with wire(j) == block_num, j <= nblocks
            let mut ok = false;
            let mut j = *block_num as u64;
            if j == 0 {
                j = 65536;
            }
            while j <= nblocks {
                let a = ((j - 1) as usize) * BLK;
                let b = std::cmp::min(j as usize * BLK, len);
                if a <= len && &data[a..b] == &d[..] {
                    ok = true;
                    break;
                }
                j += 65536;
            }
            if !ok {
                let beyond = (*block_num as u64) > nblocks && nblocks < 65536;
                verdict.violations.push((if beyond { "C07" } else { "C01" },
                    format!("{ctx}: datagram #{} is DATA {} with {} bytes, which is not the slice of any block <= {} with that number", k + 1, block_num, d.len(), nblocks)));
                break;
            }
            if *block_num == (expected % 65536) as u16 && expected <= nblocks {
                client_copy.extend_from_slice(d);
                expected += 1;
            }
        }
    }
    // C16: copies back to back in multiples of `rep`
    if rep > 1 {
        let mut i = 0;
        while i < sh.emitted.len() {
            let mut j = i;
            while j < sh.emitted.len() && sh.emitted[j] == sh.emitted[i] {
                j += 1;
            }
            if (j - i) % rep as usize != 0 {
                verdict.violations.push(("C16", format!("{ctx}: {:?}.. emitted {} times back to back, not a multiple of {}", verif_replay::fmt_packet(&sh.emitted[i]), j - i, rep)));
                break;
            }
            i = j;
        }
    }
    // C08: nothing is transmitted in reaction to a stale / duplicate acknowledgement
    for (reply, n) in sh.after_reply.iter() {
        if reply.starts_with("STALE") && *n > 0 {
            verdict.violations.push(("C08", format!("{ctx}: {} datagram(s) transmitted in reaction to {}", n, reply)));
            break;
        }
    }
    // C08 (window bound, cumulative ACK): with a conformant peer and no fault every acknowledgement arrives in time, so every
    // block goes out exactly once (x repeat); anything more was sent without a time-out or a gap to justify it
    if fault == Fault::None && (rep == 1 || ws == 1) {
        // (with copies AND a window the peer re-acknowledges in the middle of a window, which legitimately moves it)
        let n_data = sh.emitted.iter().filter(|p| matches!(p, Packet::Data { .. })).count() as u64;
        if n_data > nblocks * rep as u64 {
            verdict.violations.push(("C08", format!("{ctx}: {} DATA datagrams for {} blocks although no datagram was lost: blocks were sent again after they had been acknowledged", n_data, nblocks)));
        }
    }
    // C04 / C07: with a conformant peer and a single fault the transfer must have delivered the whole file - to the PEER: what it
    // accepted in sequence (datagrams lost on the way do not count), not merely what the sender put on the wire
    let (peer_got, peer_done, silent_run) = { let st = peer_state.lock().unwrap(); (st.got.clone(), st.done, st.silent_run) };
    if silent_run > 0 {
        // the sender's last receive attempts got nothing and then it ended: it gave up.  The peer is conformant, dallies, and the plan
        // holds at most one fault, so fewer than the retry budget of consecutive attempts can have failed legitimately
        verdict.violations.push(("C04", format!("{ctx}: the sender gave up (it ended after {silent_run} receive attempt(s) without an answer) although the peer \
            answers every datagram it is owed an answer to (it holds {} of {} bytes)", peer_got.len(), len)));
    }
    if peer_got != data || !peer_done {
        verdict.violations.push(("C04", format!("{ctx}: the sender ended but the peer holds {} of {} bytes (it {} the final block)", peer_got.len(), len, if peer_done { "has" } else { "never received" })));
    }
    if (peer_got != data || !peer_done || silent_run > 0) && label.contains("wrap") {
        // C15: a transfer of more than 65535 blocks continues correctly across the wrap
        verdict.violations.push(("C15", format!("{ctx}: a download of more than 65535 blocks did not complete (the peer holds {} of {} bytes)", peer_got.len(), len)));
    }
    if expected != nblocks + 1 || client_copy != data {
        verdict.violations.push(("C04", format!("{ctx}: transfer did not deliver the file (client has {} of {} blocks)", expected - 1, nblocks)));
        if rep > 1 && fault == Fault::None {
            // C16: a transfer in duplicate-packets mode with a conformant peer and no loss must still complete
            verdict.violations.push(("C16", format!("{ctx}: in duplicate-packets mode the transfer did not deliver the file (client has {} of {} blocks)", expected - 1, nblocks)));
        }
    }
}

/// honest RFC 7440 uploading peer (peer of receive_file): sends the blocks of `data`, window by window, retransmits from
/// the block after the last acknowledged one on timeout; the fault plan perturbs its datagrams
struct SenderPeer {
    st: Mutex<SenderState>,
    path: PathBuf,
    acks: Arc<Mutex<Vec<(u16, u64)>>>, // (ack number, file length at that moment)
}
struct SenderState {
    data: Vec<u8>,
    ws: u16,
    base: u64,          // first unacknowledged true index
    next: u64,          // next true index to send in this window
    nblocks: u64,
    out: VecDeque<Packet>,
    sent_cnt: usize,
    fault: Fault,
    idle: usize,
    finished: bool,
}

impl SenderPeer {
    fn block(st: &SenderState, j: u64) -> Packet {
        let a = ((j - 1) as usize) * BLK;
        let b = std::cmp::min(j as usize * BLK, st.data.len());
        Packet::Data { block_num: (j % 65536) as u16, data: st.data[a..b].to_vec() }
    }
    fn refill(st: &mut SenderState) {
        while st.next < st.base + st.ws as u64 && st.next <= st.nblocks {
            let p = Self::block(st, st.next);
            st.next += 1;
            st.sent_cnt += 1;
            let n = st.sent_cnt;
            match st.fault {
                Fault::DropEmitted(k) if k == n => {}
                Fault::DupReply(k) if k == n => {
                    st.out.push_back(clone_packet(&p));
                    st.out.push_back(p);
                }
                Fault::StaleBefore(k) if k == n && st.base > 1 => {
                    let stale = Self::block(st, st.base - 1);
                    st.out.push_back(stale);
                    st.out.push_back(p);
                }
                Fault::InjectOld(k, j) if k == n => {
                    let old = Self::block(st, j);
                    st.out.push_back(old);
                    st.out.push_back(p);
                }
                _ => st.out.push_back(p),
            }
        }
        if let Fault::SwapPeer(k) = st.fault {
            if st.out.len() >= 2 && st.sent_cnt >= k + 1 && st.sent_cnt - st.out.len() < k {
                let i = k - 1 - (st.sent_cnt - st.out.len());
                if i + 1 < st.out.len() {
                    st.out.swap(i, i + 1);
                    st.fault = Fault::None;
                }
            }
        }
    }
}

impl Socket for SenderPeer {
    fn send(&self, packet: &Packet) -> Result<(), Box<dyn Error>> {
        if let Packet::Ack(n) = packet {
            let flen = std::fs::metadata(&self.path).map(|m| m.len()).unwrap_or(0);
            self.acks.lock().unwrap().push((*n, flen));
            let mut st = self.st.lock().unwrap();
            // cumulative ACK inside the window
            let dist = (*n as u64 + 65536 - (st.base % 65536)) % 65536;
            if dist < st.ws as u64 && st.base + dist < st.next {
                st.base += dist + 1;
                st.next = std::cmp::max(st.next, st.base);
                // go-back-N: anything sent beyond the acknowledged block is sent again
                st.next = st.base;
                st.out.clear();
                if st.base > st.nblocks {
                    st.finished = true;
                }
            }
        }
        Ok(())
    }
    fn send_to(&self, packet: &Packet, _to: &SocketAddr) -> Result<(), Box<dyn Error>> {
        self.send(packet)
    }
    fn recv_with_size(&self, _size: usize) -> Result<Packet, Box<dyn Error>> {
        let mut st = self.st.lock().unwrap();
        if !st.finished && st.out.is_empty() {
            if st.next >= st.base + st.ws as u64 || st.next > st.nblocks {
                // window exhausted without an ACK: time out once, then go back to base
                st.idle += 1;
                if st.idle % 2 == 1 {
                    drop(st);
                    std::thread::sleep(TMO + Duration::from_millis(1));
                    return Err("timeout".into());
                }
                st.next = st.base;
            }
            Self::refill(&mut st);
        }
        match st.out.pop_front() {
            Some(p) => Ok(p),
            None => {
                drop(st);
                std::thread::sleep(TMO + Duration::from_millis(1));
                Err("timeout".into())
            }
        }
    }
    fn recv_from_with_size(&self, size: usize) -> Result<(Packet, SocketAddr), Box<dyn Error>> {
        Ok((self.recv_with_size(size)?, self.remote_addr()?))
    }
    fn remote_addr(&self) -> Result<SocketAddr, Box<dyn Error>> {
        Ok("127.0.0.1:50001".parse().unwrap())
    }
    fn set_read_timeout(&mut self, _d: Duration) -> Result<(), Box<dyn Error>> {
        Ok(())
    }
    fn set_write_timeout(&mut self, _d: Duration) -> Result<(), Box<dyn Error>> {
        Ok(())
    }
}

fn upload(dir: &PathBuf, len: usize, ws: u16, rep: u8, fault: Fault, verdict: &mut Verdict, label: &str) {
    if too_many_stuck() { return; }
    let path = dir.join("ul.bin");
    let _ = std::fs::remove_file(&path);
    if label.contains("over-existing") {
        // the target already holds a longer file (an accepted overwrite): nothing of it may survive
        std::fs::write(&path, vec![0xEEu8; len + 3 * BLK + 1]).unwrap();
    }
    let data = file_bytes(len);
    let nblocks = (len / BLK + 1) as u64;
    let acks = Arc::new(Mutex::new(Vec::new()));
    let peer = SenderPeer {
        st: Mutex::new(SenderState { data: data.clone(), ws, base: 1, next: 1, nblocks, out: VecDeque::new(), sent_cnt: 0, fault: fault.clone(), idle: 0, finished: false }),
        path: path.clone(),
        acks: acks.clone(),
    };
    let w = Worker::new(Box::new(peer), path.clone(), false, BLK, TMO, ws, rep);
    let h = w.receive().unwrap();
    let ctx = format!("{label}: upload len={len} blksize={BLK} windowsize={ws} repeat={rep} fault={fault:?}");
    let panicked = match join_within(h, 25) {
        Some(p) => p,
        None => {
            verdict.violations.push(("C07", format!("{ctx}: the receiver neither completed nor gave up within 25 s")));
            if label.contains("wrap") {
                verdict.violations.push(("C15", format!("{ctx}: an upload of more than 65535 blocks neither completed nor gave up within 25 s")));
            }
            return;
        }
    };
    if panicked {
        verdict.violations.push(("C07", format!("{ctx}: worker thread panicked")));
    }
    let acks = acks.lock().unwrap();
    // C02: at ACK(k) the file holds blocks 1..k (k identified as the largest true index <= progress with that wire number)
    let mut progress: u64 = 0;
    for (n, flen) in acks.iter() {
        // the acknowledged true index: smallest j >= progress with wire(j) == n, j <= nblocks
        let mut j = progress - progress % 65536 + *n as u64;
        if j < progress {
            j += 65536;
        }
        if j > nblocks {
            verdict.violations.push(("C02", format!("{ctx}: ACK {} does not correspond to any block the sender has sent in sequence (progress {})", n, progress)));
            break;
        }
        let need = std::cmp::min(j as usize * BLK, len);
        if (*flen as usize) < need || *flen as usize > len {
            verdict.violations.push(("C02", format!("{ctx}: at ACK {} (block #{}) the file holds {} bytes, blocks 1..{} need {}", n, j, flen, j, need)));
            break;
        }
        progress = j;
    }
    if rep > 1 {
        let mut i = 0;
        while i < acks.len() {
            let mut j = i;
            while j < acks.len() && acks[j].0 == acks[i].0 {
                j += 1;
            }
            if (j - i) % rep as usize != 0 {
                verdict.violations.push(("C16", format!("{ctx}: ACK {} emitted {} times back to back, not a multiple of {}", acks[i].0, j - i, rep)));
                break;
            }
            i = j;
        }
    }
    let stored = std::fs::read(&path).unwrap_or_default();
    if progress != nblocks || stored != data {
        verdict.violations.push(("C04", format!("{ctx}: upload did not complete with identical content (acknowledged {} of {} blocks, {} of {} bytes stored)", progress, nblocks, stored.len(), len)));
        if label.contains("over-existing") {
            verdict.violations.push(("C06", format!("{ctx}: an upload onto a longer existing file (an accepted overwrite) did not replace the old content entirely ({} of {} bytes stored)", stored.len(), len)));
        }
        if label.contains("wrap") {
            verdict.violations.push(("C15", format!("{ctx}: an upload of more than 65535 blocks did not complete with identical content (acknowledged {} of {} blocks, {} of {} bytes stored)", progress, nblocks, stored.len(), len)));
        }
    }
}

/// C07: a sender whose peer falls silent gives up after a bounded number of tries, whatever it received before (time-outs and
/// stale acknowledgements in any order).  The peer plays a script (None = stay silent for one receive) and is silent afterwards.
struct ScriptThenSilent {
    script: Mutex<VecDeque<Option<Packet>>>,
    silent_receives: Arc<Mutex<usize>>,
    give_up_at: usize,
}
impl Socket for ScriptThenSilent {
    fn send(&self, _packet: &Packet) -> Result<(), Box<dyn Error>> {
        Ok(())
    }
    fn send_to(&self, packet: &Packet, _to: &SocketAddr) -> Result<(), Box<dyn Error>> {
        self.send(packet)
    }
    fn recv_with_size(&self, _size: usize) -> Result<Packet, Box<dyn Error>> {
        if let Some(step) = self.script.lock().unwrap().pop_front() {
            return match step {
                Some(p) => Ok(p),
                None => {
                    std::thread::sleep(Duration::from_millis(1010));
                    Err("timeout".into())
                }
            };
        }
        let mut n = self.silent_receives.lock().unwrap();
        *n += 1;
        if *n > self.give_up_at {
            // the sender should have given up long ago: end the experiment
            return Ok(Packet::Error { code: tftpd::ErrorCode::NotDefined, msg: "experiment over".to_string() });
        }
        drop(n);
        std::thread::sleep(Duration::from_millis(1010));
        Err("timeout".into())
    }
    fn recv_from_with_size(&self, size: usize) -> Result<(Packet, SocketAddr), Box<dyn Error>> {
        Ok((self.recv_with_size(size)?, self.remote_addr()?))
    }
    fn remote_addr(&self) -> Result<SocketAddr, Box<dyn Error>> {
        Ok("127.0.0.1:50004".parse().unwrap())
    }
    fn set_read_timeout(&mut self, _d: Duration) -> Result<(), Box<dyn Error>> {
        Ok(())
    }
    fn set_write_timeout(&mut self, _d: Duration) -> Result<(), Box<dyn Error>> {
        Ok(())
    }
}

fn sender_gives_up(dir: &PathBuf, verdict: &mut Verdict, runs: &mut u64) {
    let path = dir.join("silent.bin");
    std::fs::write(&path, file_bytes(20)).unwrap();
    // (the stale acknowledgement is ACK 0 while block 1 is outstanding)
    let scripts: Vec<(&str, Vec<Option<Packet>>)> = vec![
        ("silence from the start", vec![]),
        ("5 time-outs, one stale ACK, then silence", vec![None, None, None, None, None, Some(Packet::Ack(0))]),
        ("6 stale ACKs, then silence", (0..6).map(|_| Some(Packet::Ack(0))).collect()),
        ("2 time-outs, stale ACK, 2 time-outs, stale ACK, then silence", vec![None, None, Some(Packet::Ack(0)), None, None, Some(Packet::Ack(0))]),
    ];
    let mut handles = Vec::new();
    for (what, script) in scripts {
        *runs += 1;
        let silent = Arc::new(Mutex::new(0usize));
        let peer = ScriptThenSilent { script: Mutex::new(script.into_iter().collect()), silent_receives: silent.clone(), give_up_at: 9 };
        let w = Worker::new(Box::new(peer), path.clone(), true, BLK, TMO, 1, 1);
        handles.push((what, silent, w.send(false).unwrap()));
    }
    for (what, silent, h) in handles {
        let _ = h.join();
        let n = *silent.lock().unwrap();
        if n > 9 {
            verdict.violations.push(("C07", format!("sender (blksize {BLK}, windowsize 1) whose peer stays silent after '{what}': still retransmitting after {} silent time-outs (it must give up after at most 6 tries)", n - 1)));
        }
    }
}

/// C09: the transfer uses exactly the negotiated block length and blocks per window, also for large products
struct SilentPeer {
    sent: Arc<Mutex<Vec<Packet>>>,
}
impl Socket for SilentPeer {
    fn send(&self, packet: &Packet) -> Result<(), Box<dyn Error>> {
        self.sent.lock().unwrap().push(clone_packet(packet));
        Ok(())
    }
    fn send_to(&self, packet: &Packet, _to: &SocketAddr) -> Result<(), Box<dyn Error>> {
        self.send(packet)
    }
    fn recv_with_size(&self, _size: usize) -> Result<Packet, Box<dyn Error>> {
        std::thread::sleep(TMO + Duration::from_millis(1));
        Err("timeout".into())
    }
    fn recv_from_with_size(&self, size: usize) -> Result<(Packet, SocketAddr), Box<dyn Error>> {
        Ok((self.recv_with_size(size)?, self.remote_addr()?))
    }
    fn remote_addr(&self) -> Result<SocketAddr, Box<dyn Error>> {
        Ok("127.0.0.1:50002".parse().unwrap())
    }
    fn set_read_timeout(&mut self, _d: Duration) -> Result<(), Box<dyn Error>> {
        Ok(())
    }
    fn set_write_timeout(&mut self, _d: Duration) -> Result<(), Box<dyn Error>> {
        Ok(())
    }
}

/// C13 (first sentence): an upload whose peer aborts.  The peer delivers a fixed plan of DATA blocks and then either
/// stays silent or sends ERROR; it never completes the file.
struct AbortPeer {
    plan: Mutex<VecDeque<Packet>>,
    then_error: bool,
    error_sent: Mutex<bool>,
}
impl Socket for AbortPeer {
    fn send(&self, _packet: &Packet) -> Result<(), Box<dyn Error>> {
        Ok(())
    }
    fn send_to(&self, packet: &Packet, _to: &SocketAddr) -> Result<(), Box<dyn Error>> {
        self.send(packet)
    }
    fn recv_with_size(&self, _size: usize) -> Result<Packet, Box<dyn Error>> {
        if let Some(p) = self.plan.lock().unwrap().pop_front() {
            return Ok(p);
        }
        let mut sent = self.error_sent.lock().unwrap();
        if self.then_error && !*sent {
            *sent = true;
            return Ok(Packet::Error { code: tftpd::ErrorCode::NotDefined, msg: "peer gives up".to_string() });
        }
        drop(sent);
        std::thread::sleep(TMO + Duration::from_millis(1));
        Err("timeout".into())
    }
    fn recv_from_with_size(&self, size: usize) -> Result<(Packet, SocketAddr), Box<dyn Error>> {
        Ok((self.recv_with_size(size)?, self.remote_addr()?))
    }
    fn remote_addr(&self) -> Result<SocketAddr, Box<dyn Error>> {
        Ok("127.0.0.1:50003".parse().unwrap())
    }
    fn set_read_timeout(&mut self, _d: Duration) -> Result<(), Box<dyn Error>> {
        Ok(())
    }
    fn set_write_timeout(&mut self, _d: Duration) -> Result<(), Box<dyn Error>> {
        Ok(())
    }
}

/// C13, abort cause "write error": the upload target is a symbolic link to /dev/full (the file can be created, every write fails).
/// The peer sends the complete file; the upload must fail and, with clean-on-error, the target must be removed.
fn uploads_onto_a_full_disk(dir: &PathBuf, verdict: &mut Verdict, runs: &mut u64) {
    if !std::path::Path::new("/dev/full").exists() {
        return;
    }
    for (nb, ws) in [(2usize, 1u16), (3, 4), (9, 4)] {
        if too_many_stuck() { return; }
        *runs += 1;
        let len = (nb - 1) * BLK + 3;
        let data = file_bytes(len);
        let path = dir.join("full-disk.bin");
        let _ = std::fs::remove_file(&path);
        if std::os::unix::fs::symlink("/dev/full", &path).is_err() { return; }
        let plan: VecDeque<Packet> = (1..=nb).map(|j| Packet::Data { block_num: j as u16, data: data[(j - 1) * BLK..std::cmp::min(j * BLK, len)].to_vec() }).collect();
        let peer = AbortPeer { plan: Mutex::new(plan), then_error: false, error_sent: Mutex::new(false) };
        let w = Worker::new(Box::new(peer), path.clone(), true, BLK, TMO, ws, 1);
        let joined = join_within(w.receive().unwrap(), 25);
        let ctx = format!("upload of {nb} blocks (blksize {BLK}, windowsize {ws}, clean-on-error) onto a full disk (every write fails)");
        if joined.is_none() {
            verdict.violations.push(("C07", format!("{ctx}: the receiver neither completed nor gave up within 25 s")));
        }
        if std::fs::symlink_metadata(&path).is_ok() {
            verdict.violations.push(("C13", format!("{ctx}: the upload did not fail / was not cleaned up: the target is still there")));
            let _ = std::fs::remove_file(&path);
        }
    }
}

fn aborted_uploads(dir: &PathBuf, verdict: &mut Verdict, runs: &mut u64) {
    for nb in [1usize, 2, 3, 5] {
        // nb blocks, the last one short (3 bytes)
        let len = (nb - 1) * BLK + 3;
        let data = file_bytes(len);
        let block = |j: usize| Packet::Data { block_num: j as u16, data: data[(j - 1) * BLK..std::cmp::min(j * BLK, len)].to_vec() };
        // plans: in-sequence prefixes that stop before the end; one block lost and the rest (incl. the short final block) delivered
        let mut plans: Vec<(String, Vec<usize>)> = Vec::new();
        for j in 0..nb {
            plans.push((format!("blocks 1..{j} arrive, then the peer aborts"), (1..=j).collect()));
        }
        for lost in 1..nb {
            plans.push((format!("block {lost} is lost, blocks {}..{nb} (the last one short) arrive, then the peer aborts", lost + 1),
                        (1..=nb).filter(|j| *j != lost).collect()));
        }
        for (what, plan) in plans {
            // the in-sequence prefix that a correct receiver may have stored
            let mut inseq = 0usize;
            for j in &plan {
                if *j == inseq + 1 {
                    inseq += 1;
                }
            }
            for ws in [1u16, 2, 4] {
                for then_error in [false, true] {
                    for clean in [true, false] {
                        if too_many_stuck() { return; }
                        *runs += 1;
                        let path = dir.join("abort.bin");
                        let _ = std::fs::remove_file(&path);
                        let peer = AbortPeer { plan: Mutex::new(plan.iter().map(|j| block(*j)).collect()), then_error, error_sent: Mutex::new(false) };
                        let w = Worker::new(Box::new(peer), path.clone(), clean, BLK, TMO, ws, 1);
                        let joined = join_within(w.receive().unwrap(), 25);
                        let ctx = format!("upload of {nb} blocks (blksize {BLK}, windowsize {ws}, {}): {what} by {}",
                                          if clean { "clean-on-error" } else { "keep-on-error" }, if then_error { "ERROR" } else { "silence" });
                        if joined.is_none() {
                            verdict.violations.push(("C07", format!("{ctx}: the receiver neither completed nor gave up within 25 s")));
                            if clean && std::fs::metadata(&path).is_ok() {
                                verdict.violations.push(("C13", format!("{ctx}: the receiver never gives up, so the partial file is still there after 25 s")));
                            }
                            continue;
                        }
                        let stored = std::fs::read(&path).ok();
                        if clean {
                            if let Some(s) = stored {
                                verdict.violations.push(("C13", format!("{ctx}: the incomplete file survives with {} of {} bytes", s.len(), len)));
                            }
                        } else {
                            match stored {
                                None => verdict.violations.push(("C13", format!("{ctx}: the partial file was removed"))),
                                Some(s) => {
                                    if s.len() > inseq * BLK || s[..] != data[..s.len()] {
                                        verdict.violations.push(("C13", format!("{ctx}: the kept file ({} bytes) is not a prefix of the {} in-sequence blocks received", s.len(), inseq)));
                                    }
                                }
                            }
                        }
                    }
                }
            }
        }
    }
}

fn negotiated_settings(dir: &PathBuf, verdict: &mut Verdict) {
    for (blk, ws) in [(8usize, 3u16), (512, 16), (1468, 715), (32768, 40), (65464, 20)] {
        let path = dir.join("big.bin");
        let len = blk * (ws as usize + 1) + 5;
        std::fs::write(&path, vec![0x5au8; len]).unwrap();
        let sent = Arc::new(Mutex::new(Vec::new()));
        let w = Worker::new(Box::new(SilentPeer { sent: sent.clone() }), path.clone(), true, blk, TMO, ws, 1);
        let _ = w.send(false).unwrap().join();
        let sent = sent.lock().unwrap();
        // the first transmission of the first window: everything before block 1 is repeated
        let mut first: Vec<(u16, usize)> = Vec::new();
        for p in sent.iter() {
            if let Packet::Data { block_num, data } = p {
                if *block_num == 1 && !first.is_empty() {
                    break;
                }
                first.push((*block_num, data.len()));
            }
        }
        let ok = first.len() == ws as usize && first.iter().enumerate().all(|(i, (n, l))| *n as usize == i + 1 && *l == blk);
        if !ok {
            verdict.violations.push(("C09", format!("sender with negotiated blksize={blk} windowsize={ws}: the first window on the wire has {} blocks (lengths {:?}...), expected {ws} blocks of {blk} bytes",
                first.len(), first.iter().take(3).map(|x| x.1).collect::<Vec<_>>())));
        }
    }
}

fn main() {
    let args: Vec<String> = std::env::args().collect();
    let which = args.get(1).cloned().unwrap_or_else(|| "all".into());
    let quick = args.iter().any(|a| a == "--quick");
    let dir = scratch_dir("scenarios");
    let mut verdict = Verdict { violations: Vec::new() };
    let lens: Vec<usize> = if quick { vec![0, 8, 20, 45] } else { vec![0, 1, 7, 8, 9, 16, 20, 24, 33, 45, 64] };
    let wss: Vec<u16> = if quick { vec![1, 4] } else { vec![1, 2, 3, 4] };
    let mut runs = 0u64;
    for &len in &lens {
        for &ws in &wss {
            for rep in [1u8, 3u8] {
                if rep == 3 && (quick || len > 24) {
                    continue;
                }
                let nb = len / BLK + 1;
                let mut faults = vec![Fault::None];
                let limit = if quick { std::cmp::min(nb * rep as usize, 6) } else { nb * rep as usize + 2 };
                for k in 1..=limit {
                    faults.push(Fault::DropEmitted(k));
                    faults.push(Fault::DropReply(k));
                    faults.push(Fault::DupReply(k));
                    faults.push(Fault::StaleBefore(k));
                }
                for f in faults {
                    runs += 1;
                    download(&dir, len, ws, rep, f.clone(), &mut verdict, "sender");
                    let f2 = match f {
                        Fault::DropReply(_) => continue,
                        other => other,
                    };
                    runs += 1;
                    upload(&dir, len, ws, rep, f2, &mut verdict, "receiver");
                }
                if !quick {
                    for k in 1..=nb {
                        runs += 1;
                        upload(&dir, len, ws, rep, Fault::SwapPeer(k), &mut verdict, "receiver");
                    }
                }
            }
        }
    }
    // the quick tier skips repeat = 3 in the sweep above: a handful of duplicate-packets runs with a lost reply / lost datagram (C16)
    if quick {
        for (len, ws) in [(20usize, 1u16), (20, 2), (45, 4)] {
            for f in [Fault::None, Fault::DropReply(1), Fault::DropReply(2), Fault::DropEmitted(2), Fault::DropEmitted(4)] {
                runs += 1;
                download(&dir, len, ws, 3, f.clone(), &mut verdict, "sender");
                if !matches!(f, Fault::DropReply(_)) {
                    runs += 1;
                    upload(&dir, len, ws, 3, f, &mut verdict, "receiver");
                }
            }
        }
    }
    // block-number wrap-around (C15): > 65536 blocks, a fault in the window that straddles the wrap
    if which == "all" || which == "C15" || which == "C02" || which == "C01" {
        let len = 65546 * BLK - 3;
        for f in [Fault::None, Fault::DropEmitted(65535), Fault::DropEmitted(65536), Fault::DupReply(16384)] {
            runs += 1;
            download(&dir, len, 4, 1, f.clone(), &mut verdict, "sender-wrap");
            runs += 1;
            upload(&dir, len, 4, 1, f, &mut verdict, "receiver-wrap");
        }
        // delayed copies of early blocks arriving at the wrap, where block 65536 (wire 0) is expected: block 1 (wire 1), block 2 (wire 2).
        // (a copy of block 1 arriving exactly where wire 1 is expected again, 65536 blocks later, is indistinguishable by design: not a fault model of C15)
        for f in [Fault::InjectOld(65536, 1), Fault::InjectOld(65536, 2)] {
            runs += 1;
            upload(&dir, len, 4, 1, f, &mut verdict, "receiver-wrap");
        }
    }
    // duplicate-packets mode with many copies: the peer acknowledges every surplus copy again, so the sender sees runs of 7 and of
    // 254 stale acknowledgements; they must be ignored however many there are (C16 / C08)
    if which == "all" || which == "C16" || which == "C08" || which == "C04" || which == "C07" {
        for (len, ws, rep) in [(20usize, 1u16, 8u8), (45, 1, 8), (20, 1, 255)] {
            runs += 1;
            download(&dir, len, ws, rep, Fault::None, &mut verdict, "sender many-copies");
        }
    }
    // an accepted overwrite: the uploaded file replaces the longer one that was there (C02)
    if which == "all" || which == "C02" || which == "C13" || which == "C06" {
        for (len, ws) in [(0usize, 1u16), (20, 1), (45, 3)] {
            runs += 1;
            upload(&dir, len, ws, 1, Fault::None, &mut verdict, "receiver over-existing");
        }
    }
    // windows of more than 32768 blocks (C08: the whole 16-bit range of window sizes)
    if which == "all" || which == "C08" {
        let len = 65546 * BLK - 3;
        for ws in [32769u16, 65535] {
            runs += 1;
            download(&dir, len, ws, 1, Fault::None, &mut verdict, "sender-bigwindow");
        }
    }
    if which == "all" || which == "C09" {
        negotiated_settings(&dir, &mut verdict);
    }
    if which == "all" || which == "C13" {
        aborted_uploads(&dir, &mut verdict, &mut runs);
        uploads_onto_a_full_disk(&dir, &mut verdict, &mut runs);
    }
    // real time-outs of more than a second each: full sweep only
    if !quick && (which == "all" || which == "C07" || which == "C04") {
        sender_gives_up(&dir, &mut verdict, &mut runs);
    }
    let _ = std::fs::remove_dir_all(&dir);
    let mut found = false;
    let mut by_prop = std::collections::BTreeMap::new();
    for (p, text) in &verdict.violations {
        by_prop.entry(*p).or_insert_with(Vec::new).push(text.clone());
    }
    for (p, texts) in &by_prop {
        if which == "all" || which == *p {
            found = true;
            println!("WITNESS property={} ({} scenario(s)); first: {}", p, texts.len(), texts[0]);
        } else {
            println!("note: scenarios also show a witness for {}: {}", p, texts[0]);
        }
    }
    println!("scenarios: runs={} witnesses={} (bounded exploration; finding nothing proves nothing)", runs, verdict.violations.len());
    std::process::exit(if found { 1 } else { 0 });
}
