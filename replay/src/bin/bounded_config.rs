//! BOUNDED stand-in / witness finder (never counted as proved) for C17: executes the REAL `Config::new` and `ClientConfig::new`
//! on every argument vector of up to 3 units over a unit alphabet (every flag in short and/or long form with valid, invalid and
//! missing values, existing and missing directories, an unknown flag) and compares with an executable twin of the fold
//! specification `cfg_run` / `ccfg_run` (spec/verif_spec.rs, contracts/*config.contract): left-to-right fold, last occurrence
//! wins, directory fall-back when not given, every error case is an Err.  `-h/--help` is left out (it ends the process).
//! exit 1 with a COUNTEREXAMPLE line on a violation.
use std::net::IpAddr;
use std::path::PathBuf;
use std::time::Duration;
use tftpd::{ClientConfig, Config, Mode};
use verif_replay::scratch_dir;

#[derive(Clone, Debug, PartialEq)]
struct Srv {
    ip: IpAddr,
    port: u16,
    dir: PathBuf,
    rdir: PathBuf,
    sdir: PathBuf,
    single: bool,
    ro: bool,
    dup: u8,
    overwrite: bool,
    clean: bool,
}

/// the specification: fold over the units, then the directory fall-back
fn spec_server(args: &[String], cwd: &PathBuf) -> Option<Srv> {
    let mut c = Srv { ip: "127.0.0.1".parse().unwrap(), port: 69, dir: cwd.clone(), rdir: PathBuf::new(), sdir: PathBuf::new(),
                      single: false, ro: false, dup: 0, overwrite: false, clean: true };
    let mut i = 1; // the program name is skipped
    while i < args.len() {
        let a = args[i].as_str();
        let val = args.get(i + 1);
        match a {
            "-i" | "--ip-address" => { c.ip = val?.parse().ok()?; i += 2; }
            "-p" | "--port" => { c.port = val?.parse().ok()?; i += 2; }
            "-d" | "--directory" => { let v = val?; if !PathBuf::from(v).exists() { return None; } c.dir = v.into(); i += 2; }
            "-rd" | "--receive-directory" => { let v = val?; if !PathBuf::from(v).exists() { return None; } c.rdir = v.into(); i += 2; }
            "-sd" | "--send-directory" => { let v = val?; if !PathBuf::from(v).exists() { return None; } c.sdir = v.into(); i += 2; }
            "-s" | "--single-port" => { c.single = true; i += 1; }
            "-r" | "--read-only" => { c.ro = true; i += 1; }
            "--duplicate-packets" => { let n: u8 = val?.parse().ok()?; if n == 255 { return None; } c.dup = n; i += 2; }
            "--overwrite" => { c.overwrite = true; i += 1; }
            "--keep-on-error" => { c.clean = false; i += 1; }
            _ => return None,
        }
    }
    if c.rdir.as_os_str().is_empty() { c.rdir = c.dir.clone(); }
    if c.sdir.as_os_str().is_empty() { c.sdir = c.dir.clone(); }
    Some(c)
}

fn view_server(c: &Config) -> Srv {
    Srv { ip: c.ip_address, port: c.port, dir: c.directory.clone(), rdir: c.receive_directory.clone(), sdir: c.send_directory.clone(),
          single: c.single_port, ro: c.read_only, dup: c.duplicate_packets, overwrite: c.overwrite, clean: c.clean_on_error }
}

#[derive(Clone, Debug, PartialEq)]
struct Cli {
    ip: IpAddr,
    port: u16,
    blk: usize,
    ws: u16,
    tmo: Duration,
    upload: bool,
    rdir: PathBuf,
    file: PathBuf,
    clean: bool,
}

fn convert(name: &str) -> PathBuf {
    // the documented normalisation of a file argument: leading separators dropped, '\\' read as '/'
    PathBuf::from(name.trim_start_matches(|c| c == '/' || c == '\\').replace('\\', "/"))
}

fn spec_client(args: &[String]) -> Option<Cli> {
    let mut c = Cli { ip: "127.0.0.1".parse().unwrap(), port: 69, blk: 512, ws: 1, tmo: Duration::from_secs(5), upload: false,
                      rdir: PathBuf::new(), file: PathBuf::new(), clean: true };
    let mut i = 0; // the client parser does not skip a program name
    while i < args.len() {
        let a = args[i].as_str();
        let val = args.get(i + 1);
        match a {
            "-i" | "--ip-address" => { c.ip = val?.parse().ok()?; i += 2; }
            "-p" | "--port" => { c.port = val?.parse().ok()?; i += 2; }
            "-b" | "--blocksize" => { c.blk = val?.parse().ok()?; i += 2; }
            "-w" | "--windowsize" => { c.ws = val?.parse().ok()?; i += 2; }
            "-t" | "--timeout" => { c.tmo = Duration::from_secs(val?.parse().ok()?); i += 2; }
            "-rd" | "--receive-directory" => { let v = val?; if !PathBuf::from(v).exists() { return None; } c.rdir = v.into(); i += 2; }
            "-u" | "--upload" => { c.upload = true; i += 1; }
            "-d" | "--download" => { c.upload = false; i += 1; }
            "--keep-on-error" => { c.clean = false; i += 1; }
            f => { c.file = convert(f); i += 1; }
        }
    }
    Some(c)
}

fn view_client(c: &ClientConfig) -> Cli {
    Cli { ip: c.remote_ip_address, port: c.port, blk: c.blocksize, ws: c.windowsize, tmo: c.timeout, upload: c.mode == Mode::Upload,
          rdir: c.receive_directory.clone(), file: c.file_path.clone(), clean: c.clean_on_error }
}

fn main() {
    let base = scratch_dir("bounded_config");
    let a = base.join("dirA");
    let b = base.join("dirB");
    std::fs::create_dir_all(&a).unwrap();
    std::fs::create_dir_all(&b).unwrap();
    let (a, b, missing) = (a.display().to_string(), b.display().to_string(), base.join("missing").display().to_string());
    let cwd = std::env::current_dir().unwrap();
    let u = |xs: &[&str]| xs.iter().map(|s| s.to_string()).collect::<Vec<String>>();
    let server_units: Vec<Vec<String>> = vec![
        u(&["-i", "127.0.0.2"]), u(&["--ip-address", "::1"]), u(&["-i", "notanip"]), u(&["-i"]),
        u(&["-p", "1234"]), u(&["--port", "70000"]), u(&["-p"]),
        u(&["-d", &a]), u(&["--directory", &b]), u(&["-d", &missing]), u(&["-d"]),
        u(&["-rd", &a]), u(&["--receive-directory", &b]), u(&["-rd", &missing]),
        u(&["-sd", &b]), u(&["--send-directory", &a]), u(&["-sd", &missing]),
        u(&["-s"]), u(&["--read-only"]), u(&["-r"]),
        u(&["--duplicate-packets", "3"]), u(&["--duplicate-packets", "254"]), u(&["--duplicate-packets", "255"]), u(&["--duplicate-packets", "x"]),
        u(&["--duplicate-packets", "256"]), u(&["--duplicate-packets", "65535"]), u(&["--duplicate-packets", "65536"]), u(&["-p", "65536"]),
        u(&["--overwrite"]), u(&["--keep-on-error"]), u(&["bogus"]),
    ];
    let client_units: Vec<Vec<String>> = vec![
        u(&["-i", "127.0.0.2"]), u(&["--ip-address", "nope"]), u(&["-p", "1234"]), u(&["-p", "-1"]),
        u(&["-b", "1024"]), u(&["--blocksize", "8"]), u(&["-b", "x"]), u(&["-b"]),
        u(&["-w", "4"]), u(&["--windowsize", "70000"]), u(&["-t", "7"]), u(&["--timeout", "x"]),
        u(&["-rd", &a]), u(&["--receive-directory", &b]), u(&["-rd", &missing]),
        u(&["-u"]), u(&["--upload"]), u(&["-d"]), u(&["--download"]), u(&["--keep-on-error"]),
        u(&["file.bin"]), u(&["sub\\other.txt"]), u(&["/abs/x"]),
    ];
    let mut cases = 0u64;
    let fail = |what: String| -> ! {
        println!("COUNTEREXAMPLE: {what}");
        std::process::exit(1);
    };
    // all sequences of 0..=3 units
    fn seqs(n: usize, k: usize) -> Vec<Vec<usize>> {
        let mut out = vec![vec![]];
        let mut cur = vec![vec![]];
        for _ in 0..k {
            let mut next = Vec::new();
            for s in &cur {
                for i in 0..n {
                    let mut t: Vec<usize> = s.clone();
                    t.push(i);
                    next.push(t);
                }
            }
            out.extend(next.iter().cloned());
            cur = next;
        }
        out
    }
    for s in seqs(server_units.len(), 3) {
        cases += 1;
        let mut args = vec!["tftpd".to_string()];
        for i in &s { args.extend(server_units[*i].iter().cloned()); }
        let want = spec_server(&args, &cwd);
        let got = Config::new(args.clone().into_iter()).ok().map(|c| view_server(&c));
        if want != got {
            fail(format!("Config::new({:?}) = {:?}, the fold specification gives {:?}", &args[1..], got, want));
        }
    }
    for s in seqs(client_units.len(), 3) {
        cases += 1;
        let mut args = vec![];
        for i in &s { args.extend(client_units[*i].iter().cloned()); }
        let want = spec_client(&args);
        let got = ClientConfig::new(args.clone().into_iter()).ok().map(|c| view_client(&c));
        if want != got {
            fail(format!("ClientConfig::new({:?}) = {:?}, the fold specification gives {:?}", args, got, want));
        }
    }
    let _ = std::fs::remove_dir_all(&base);
    println!("bounded_config: cases={} violations=0", cases);
}
