//! Demonstrations of the genuine defects D1, D2, D3, D8 against the real code (DESIGN.md section 6).
//! exit 0 = the defect does NOT manifest (repaired), exit 1 = it manifests.
use std::time::Duration;
use tftpd::{ErrorCode, Packet};
use verif_replay::*;

fn file_of(len: usize, name: &str) -> std::path::PathBuf {
    let d = scratch_dir(name);
    let p = d.join("f.bin");
    std::fs::write(&p, (0..len).map(|i| (i % 251) as u8).collect::<Vec<u8>>()).unwrap();
    p
}

fn show(log: &[Packet]) {
    for p in log {
        println!("   server -> {}", fmt_packet(p));
    }
}

fn d2() -> bool {
    // 20-byte file, blksize 8 => blocks 1(8) 2(8) 3(4).  windowsize 4.  peer: ACK 1, then ACK 3.
    let run = Run { path: file_of(20, "d2"), blk: 8, ws: 4, repeat: 1, timeout: Duration::from_millis(2), clean: true };
    let (log, panicked) = run_send(&run, false, fixed(vec![Step::Reply(Packet::Ack(1)), Step::Reply(Packet::Ack(3))]));
    show(&log);
    let beyond = log.iter().any(|p| matches!(p, Packet::Data { block_num, .. } if *block_num > 3));
    println!("D2: block beyond the final block (3) emitted: {}   panicked: {}", beyond, panicked);
    beyond || panicked
}

fn d1() -> bool {
    // windowsize 65535, first reply is a duplicate/stale ACK 0 (= base-1).
    let run = Run { path: file_of(20, "d1"), blk: 8, ws: 65535, repeat: 1, timeout: Duration::from_millis(200), clean: true };
    let (log, panicked) = run_send(&run, false, fixed(vec![Step::Reply(Packet::Ack(0)), Step::Reply(Packet::Ack(3))]));
    show(&log);
    let datas = log.iter().filter(|p| matches!(p, Packet::Data { .. })).count();
    println!("D1: worker panicked: {}   DATA datagrams emitted: {} (3 expected: stale ACK must not retransmit)", panicked, datas);
    panicked || datas != 3
}

fn d8() -> bool {
    // OACK answered by ERROR: no DATA may follow.
    let run = Run { path: file_of(20, "d8"), blk: 8, ws: 1, repeat: 1, timeout: Duration::from_millis(2), clean: true };
    let (log, _p) = run_send(&run, true, fixed(vec![Step::Reply(Packet::Error { code: ErrorCode::NotDefined, msg: "no".to_string() })]));
    show(&log);
    let any_data = log.iter().any(|p| matches!(p, Packet::Data { .. }));
    println!("D8: DATA emitted after the peer refused the OACK with ERROR: {}", any_data);
    any_data
}

fn d3() -> bool {
    // upload, blksize 8, windowsize 1: DATA 1 (8 bytes) arrives, ACK 1 is lost, the peer retransmits DATA 1.
    let d = scratch_dir("d3");
    let run = Run { path: d.join("up.bin"), blk: 8, ws: 1, repeat: 1, timeout: Duration::from_millis(2), clean: false };
    let blk = |n: u16, len: usize| Packet::Data { block_num: n, data: vec![n as u8; len] };
    let (log, _p) = run_receive(&run, fixed(vec![Step::Reply(blk(1, 8)), Step::Reply(blk(1, 8)), Step::Reply(blk(1, 8))]));
    show(&log);
    let acks1 = log.iter().filter(|p| matches!(p, Packet::Ack(1))).count();
    println!("D3: ACK 1 emitted {} time(s) for 3 arrivals of DATA 1 (a retransmitted block must be re-acknowledged)", acks1);
    acks1 < 2
}

fn main() {
    let which = std::env::args().nth(1).unwrap_or_else(|| "all".to_string());
    let mut bad = false;
    for (name, f) in [("D1", d1 as fn() -> bool), ("D2", d2), ("D3", d3), ("D8", d8)] {
        if which == "all" || which == name {
            println!("== {}", name);
            let m = f();
            println!("== {} {}", name, if m { "MANIFESTS" } else { "does not manifest" });
            bad |= m;
        }
    }
    std::process::exit(if bad { 1 } else { 0 });
}
