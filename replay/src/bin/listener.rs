//! Witness finder for the listener-level properties (C03, C05, C06, C09, C12): a bounded catalogue of requests
//! against REAL servers (`Server::listen` in a thread, loopback UDP), with an oracle derived from the configuration and
//! the files on disk.  Like scenarios.rs it NEVER decides a property: the runner uses it to look for a concrete failing
//! input when the proof of a changed function is undecided or has failed.
//!
//! usage: listener <C03|C05|C06|C09|C12|all>     exit 1 = witness found (printed), 0 = none
use std::net::{SocketAddr, UdpSocket};
use std::path::{Path, PathBuf};
use std::time::Duration;
use tftpd::{Config, ErrorCode, OptionType, Packet, Server, TransferOption};
use verif_replay::scratch_dir;

#[derive(Clone, Debug)]
struct Cfg {
    distinct: bool,
    trailing_sep: bool,
    read_only: bool,
    overwrite: bool,
    single: bool,
}

struct Srv {
    addr: SocketAddr,
    send_dir: PathBuf,
    recv_dir: PathBuf,
    root: PathBuf,
    cfg: Cfg,
}

fn free_port() -> u16 {
    UdpSocket::bind("127.0.0.1:0").unwrap().local_addr().unwrap().port()
}

fn start(base: &Path, n: usize, cfg: &Cfg) -> Srv {
    let root = base.join(format!("srv{n}"));
    let (send_dir, recv_dir) = if cfg.distinct { (root.join("out"), root.join("in")) } else { (root.join("data"), root.join("data")) };
    std::fs::create_dir_all(&send_dir).unwrap();
    std::fs::create_dir_all(&recv_dir).unwrap();
    std::fs::write(root.join("secret.txt"), b"TOP SECRET outside the served directories").unwrap();
    std::fs::write(send_dir.join("hello.bin"), (0..3000u32).map(|i| (i % 253) as u8).collect::<Vec<u8>>()).unwrap();
    std::fs::create_dir_all(send_dir.join("sub")).unwrap();
    std::fs::write(send_dir.join("sub/inner.txt"), b"inner").unwrap();
    std::fs::write(recv_dir.join("existing.bin"), b"OLD CONTENT OF AN EXISTING UPLOAD").unwrap();
    let port = free_port();
    let sep = if cfg.trailing_sep { "/" } else { "" };
    let mut args: Vec<String> = vec!["tftpd".into(), "-p".into(), port.to_string()];
    if cfg.distinct {
        args.extend(["-sd".into(), format!("{}{sep}", send_dir.display()), "-rd".into(), format!("{}{sep}", recv_dir.display())]);
    } else {
        args.extend(["-d".into(), format!("{}{sep}", send_dir.display())]);
    }
    if cfg.read_only { args.push("-r".into()); }
    if cfg.overwrite { args.push("--overwrite".into()); }
    if cfg.single { args.push("-s".into()); }
    let config = Config::new(args.into_iter()).unwrap();
    let mut server = Server::new(&config).unwrap();
    std::thread::spawn(move || server.listen());
    std::thread::sleep(Duration::from_millis(30));
    Srv { addr: format!("127.0.0.1:{port}").parse().unwrap(), send_dir, recv_dir, root, cfg: cfg.clone() }
}

fn client() -> UdpSocket {
    let c = UdpSocket::bind("127.0.0.1:0").unwrap();
    // replies normally arrive within a millisecond; the runner repeats a run that found something with a generous time-out
    // (VERIF_NET_TIMEOUT_MS) so that a reply delayed by a loaded machine is never mistaken for a missing one
    let ms = std::env::var("VERIF_NET_TIMEOUT_MS").ok().and_then(|v| v.parse().ok()).unwrap_or(400u64);
    c.set_read_timeout(Some(Duration::from_millis(ms))).unwrap();
    c
}

fn recv(c: &UdpSocket) -> Option<(Packet, SocketAddr)> {
    let mut buf = vec![0u8; 70000];
    match c.recv_from(&mut buf) {
        Ok((n, from)) => Packet::deserialize(&buf[..n]).ok().map(|p| (p, from)),
        Err(_) => None,
    }
}

fn rrq(name: &str, options: Vec<TransferOption>) -> Vec<u8> {
    Packet::Rrq { filename: name.into(), mode: "octet".into(), options }.serialize().unwrap()
}
fn wrq(name: &str, options: Vec<TransferOption>) -> Vec<u8> {
    Packet::Wrq { filename: name.into(), mode: "octet".into(), options }.serialize().unwrap()
}
fn opt(option: OptionType, value: usize) -> TransferOption {
    TransferOption { option, value }
}

struct Out {
    w: Vec<(&'static str, String)>,
}
impl Out {
    fn add(&mut self, p: &'static str, s: &Srv, what: String) {
        self.w.push((p, format!("server config {:?}: {}", s.cfg, what)));
    }
}

fn is_error(p: &Option<(Packet, SocketAddr)>, code: ErrorCode, from: SocketAddr) -> bool {
    matches!(p, Some((Packet::Error { code: c, .. }, a)) if *c == code && *a == from)
}

fn dir_snapshot(root: &Path) -> Vec<(PathBuf, Vec<u8>)> {
    let mut v = Vec::new();
    fn walk(d: &Path, v: &mut Vec<(PathBuf, Vec<u8>)>) {
        if let Ok(rd) = std::fs::read_dir(d) {
            for e in rd.flatten() {
                let p = e.path();
                if p.is_dir() { walk(&p, v) } else { v.push((p.clone(), std::fs::read(&p).unwrap_or_default())) }
            }
        }
    }
    walk(root, &mut v);
    v.sort();
    v
}

fn check_server(s: &Srv, out: &mut Out, which: &str) {
    let want = |ps: &[&str]| which == "all" || ps.contains(&which);
    let escapes = ["../secret.txt", "/../secret.txt", "..\\secret.txt", "sub/../../secret.txt", "\\/..//secret.txt", "./../secret.txt"];
    // ---- C03 / C06: read side ------------------------------------------------------------------------------
    if want(&["C03", "C06"]) {
    for name in escapes {
        let c = client();
        c.send_to(&rrq(name, vec![]), s.addr).unwrap();
        let r = recv(&c);
        if !is_error(&r, ErrorCode::AccessViolation, s.addr) {
            out.add("C03", s, format!("RRQ {:?} (escapes the send directory) was answered with {:?} instead of ERROR 2 from the listening port", name, r.map(|x| verif_replay::fmt_packet(&x.0))));
        }
    }
    {
        let c = client();
        c.send_to(&rrq("does-not-exist.bin", vec![]), s.addr).unwrap();
        let r = recv(&c);
        if !is_error(&r, ErrorCode::FileNotFound, s.addr) {
            out.add("C06", s, format!("RRQ for a missing file was answered with {:?} instead of ERROR 1 from the listening port", r.map(|x| verif_replay::fmt_packet(&x.0))));
        }
    }
    {
        // the refusals do not depend on who asks: an endpoint whose download is still running (it has DATA 1, has not acknowledged
        // it) asks for a missing file / tries to write: same answers, from the listening port
        let c = client();
        c.send_to(&rrq("hello.bin", vec![]), s.addr).unwrap();
        if let Some((Packet::Data { block_num: 1, .. }, transfer)) = recv(&c) {
            c.send_to(&rrq("does-not-exist.bin", vec![]), s.addr).unwrap();
            let r = recv(&c);
            if !is_error(&r, ErrorCode::FileNotFound, s.addr) {
                out.add("C06", s, format!("RRQ for a missing file from an endpoint whose download of hello.bin is still running was answered with {:?} instead of ERROR 1 from the listening port", r.map(|x| verif_replay::fmt_packet(&x.0))));
            }
            if s.cfg.read_only || !s.cfg.overwrite {
                c.send_to(&wrq("existing.bin", vec![]), s.addr).unwrap();
                let r = recv(&c);
                let code = if s.cfg.read_only { ErrorCode::AccessViolation } else { ErrorCode::FileExists };
                if !is_error(&r, code, s.addr) {
                    out.add("C06", s, format!("WRQ for existing.bin from an endpoint whose download of hello.bin is still running was answered with {:?} instead of {:?} from the listening port", r.map(|x| verif_replay::fmt_packet(&x.0)), code));
                }
            }
            let _ = c.send_to(&Packet::Error { code: ErrorCode::NotDefined, msg: "stop".into() }.serialize().unwrap(), if s.cfg.single { s.addr } else { transfer });
        }
    }
    for opts in [vec![opt(OptionType::TransferSize, 0)], vec![opt(OptionType::BlockSize, 1024), opt(OptionType::TransferSize, 0)]] {
        let c = client();
        c.send_to(&rrq("does-not-exist.bin", opts.clone()), s.addr).unwrap();
        let r = recv(&c);
        if !is_error(&r, ErrorCode::FileNotFound, s.addr) {
            out.add("C06", s, format!("RRQ with options {:?} for a missing file was answered with {:?} instead of ERROR 1 from the listening port", opts, r.map(|x| verif_replay::fmt_packet(&x.0))));
        }
    }
    {
        let c = client();
        c.send_to(&rrq("/sub\\inner.txt", vec![]), s.addr).unwrap();
        match recv(&c) {
            Some((Packet::Data { block_num: 1, data }, _)) if data == b"inner" => {}
            other => out.add("C03", s, format!("RRQ \"/sub\\\\inner.txt\" (inside the send directory) was answered with {:?} instead of DATA 1 with the file", other.map(|x| verif_replay::fmt_packet(&x.0)))),
        }
    }
    }
    // ---- C09: option negotiation on a read ---------------------------------------------------------------------
    if want(&["C09"]) {
    {
        let c = client();
        let req = vec![opt(OptionType::BlockSize, 1024), opt(OptionType::TransferSize, 0), opt(OptionType::Windowsize, 2), opt(OptionType::Timeout, 3)];
        c.send_to(&rrq("hello.bin", req.clone()), s.addr).unwrap();
        match recv(&c) {
            Some((Packet::Oack(o), from)) => {
                let want = vec![opt(OptionType::BlockSize, 1024), opt(OptionType::TransferSize, 3000), opt(OptionType::Windowsize, 2), opt(OptionType::Timeout, 3)];
                if o != want {
                    out.add("C09", s, format!("RRQ with {:?}: OACK is {:?}, expected {:?}", req, o, want));
                }
                c.send_to(&Packet::Ack(0).serialize().unwrap(), from).unwrap();
                let mut blocks = Vec::new();
                while let Some((Packet::Data { block_num, data }, _)) = recv(&c) {
                    blocks.push((block_num, data.len()));
                    if blocks.len() >= 4 { break; }
                }
                if blocks.len() < 2 || blocks[0] != (1, 1024) || blocks[1] != (2, 1024) || blocks.len() > 2 && blocks[2].0 != 1 {
                    // after the first window of 2 blocks nothing new may arrive before an ACK (only retransmissions of 1, 2)
                    out.add("C09", s, format!("RRQ blksize=1024 windowsize=2: the transfer sent {:?} before any ACK, expected exactly blocks (1,1024),(2,1024) per window", blocks));
                }
                c.send_to(&Packet::Error { code: ErrorCode::NotDefined, msg: "stop".into() }.serialize().unwrap(), from).unwrap();
            }
            other => out.add("C09", s, format!("RRQ with options was answered with {:?} instead of an OACK", other.map(|x| verif_replay::fmt_packet(&x.0)))),
        }
        {
            // unknown options are ignored whatever their value looks like (RFC 2347), recognised ones next to them still count
            let c = client();
            let req = [&[0u8, 1][..], b"hello.bin\0octet\0multicast\0\0blksize\01024\0x-note\0not a number\0"].concat();
            c.send_to(&req, s.addr).unwrap();
            match recv(&c) {
                Some((Packet::Oack(o), from)) => {
                    if o != vec![opt(OptionType::BlockSize, 1024)] {
                        out.add("C09", s, format!("RRQ with blksize=1024 between two unknown options with non-numeric values: OACK is {:?}, expected blksize=1024 only", o));
                    }
                    let _ = c.send_to(&Packet::Error { code: ErrorCode::NotDefined, msg: "stop".into() }.serialize().unwrap(), from);
                }
                other => out.add("C09", s, format!("RRQ with blksize=1024 between two unknown options with non-numeric values (multicast=\"\", x-note=\"not a number\") was answered with {:?} instead of an OACK", other.map(|x| verif_replay::fmt_packet(&x.0)))),
            }
        }
        // options that restate the RFC 1350 defaults are options all the same: OACK exactly when one is recognised
        for req in [vec![opt(OptionType::BlockSize, 512)], vec![opt(OptionType::Windowsize, 1)], vec![opt(OptionType::Timeout, 5)],
                    vec![opt(OptionType::BlockSize, 512), opt(OptionType::Timeout, 5), opt(OptionType::Windowsize, 1)]] {
            let c = client();
            c.send_to(&rrq("hello.bin", req.clone()), s.addr).unwrap();
            match recv(&c) {
                Some((Packet::Oack(o), from)) => {
                    if o != req {
                        out.add("C09", s, format!("RRQ with {:?} (the default values, spelled out): OACK is {:?}", req, o));
                    }
                    let _ = c.send_to(&Packet::Error { code: ErrorCode::NotDefined, msg: "stop".into() }.serialize().unwrap(), from);
                }
                other => {
                    out.add("C09", s, format!("RRQ with {:?} (the default values, spelled out) was answered with {:?} instead of an OACK", req, other.as_ref().map(|x| verif_replay::fmt_packet(&x.0))));
                    if let Some((_, from)) = other {
                        let _ = c.send_to(&Packet::Error { code: ErrorCode::NotDefined, msg: "stop".into() }.serialize().unwrap(), from);
                    }
                }
            }
        }
        if !s.cfg.read_only {
            let c = client();
            let req = vec![opt(OptionType::TransferSize, 0), opt(OptionType::BlockSize, 512)];
            c.send_to(&wrq("defaults-spelled-out.bin", req.clone()), s.addr).unwrap();
            match recv(&c) {
                Some((Packet::Oack(o), from)) => {
                    if o != req {
                        out.add("C09", s, format!("WRQ with {:?}: OACK is {:?}", req, o));
                    }
                    let _ = c.send_to(&Packet::Data { block_num: 1, data: vec![] }.serialize().unwrap(), from);
                    let _ = recv(&c);
                }
                other => out.add("C09", s, format!("WRQ with {:?} (the default values, spelled out) was answered with {:?} instead of an OACK", req, other.map(|x| verif_replay::fmt_packet(&x.0)))),
            }
            std::thread::sleep(Duration::from_millis(20));
            let _ = std::fs::remove_file(s.recv_dir.join("defaults-spelled-out.bin"));
        }
        {
            // tsize on a read request is the file's true size whatever number the client sent
            let c = client();
            c.send_to(&rrq("hello.bin", vec![opt(OptionType::TransferSize, 700)]), s.addr).unwrap();
            match recv(&c) {
                Some((Packet::Oack(o), from)) => {
                    if o != vec![opt(OptionType::TransferSize, 3000)] {
                        out.add("C09", s, format!("RRQ with tsize=700 for a 3000-byte file: OACK is {:?}, expected tsize=3000", o));
                    }
                    let _ = c.send_to(&Packet::Error { code: ErrorCode::NotDefined, msg: "stop".into() }.serialize().unwrap(), from);
                }
                other => out.add("C09", s, format!("RRQ with tsize=700 was answered with {:?} instead of an OACK", other.map(|x| verif_replay::fmt_packet(&x.0)))),
            }
        }
        for (o, v) in [(OptionType::BlockSize, 7usize), (OptionType::BlockSize, 65465), (OptionType::Timeout, 0), (OptionType::Timeout, 256), (OptionType::Windowsize, 0), (OptionType::Windowsize, 65536)] {
            if s.cfg.distinct || s.cfg.overwrite { break; } // keep the sweep short: these wait for a time-out
            let c = client();
            c.set_read_timeout(Some(Duration::from_millis(150))).unwrap();
            c.send_to(&rrq("hello.bin", vec![opt(o, v)]), s.addr).unwrap();
            if let Some((Packet::Oack(x), _)) = recv(&c) {
                out.add("C09", s, format!("RRQ with the unhonourable value {:?}={} was acknowledged: OACK {:?}", o, v, x));
            }
        }
    }
    }
    // ---- C03 / C06: write side -----------------------------------------------------------------------------
    if want(&["C03", "C06", "C09", "C13"]) {
    let before = dir_snapshot(&s.root);
    for name in escapes.iter().map(|e| e.replace("secret.txt", "planted.txt")) {
        let c = client();
        c.send_to(&wrq(&name, vec![]), s.addr).unwrap();
        let r = recv(&c);
        if !is_error(&r, ErrorCode::AccessViolation, s.addr) {
            out.add(if s.cfg.read_only { "C06" } else { "C03" }, s, format!("WRQ {:?} (escapes the receive directory) was answered with {:?} instead of ERROR 2 from the listening port", name, r.map(|x| verif_replay::fmt_packet(&x.0))));
        }
    }
    {
        let c = client();
        c.send_to(&wrq("existing.bin", vec![opt(OptionType::BlockSize, 1024)]), s.addr).unwrap();
        let r = recv(&c);
        if s.cfg.read_only {
            if !is_error(&r, ErrorCode::AccessViolation, s.addr) {
                out.add("C06", s, format!("read-only server answered a WRQ with {:?} instead of ERROR 2 from the listening port", r.map(|x| verif_replay::fmt_packet(&x.0))));
            }
        } else if !s.cfg.overwrite {
            if !is_error(&r, ErrorCode::FileExists, s.addr) {
                out.add("C06", s, format!("WRQ for an existing file (no --overwrite) was answered with {:?} instead of ERROR 6 from the listening port", r.map(|x| verif_replay::fmt_packet(&x.0))));
            }
        } else if let Some((_, from)) = &r {
            // abort the accepted overwrite after one block: with clean-on-error in force (the default) the partial file must go (C13)
            let _ = c.send_to(&Packet::Data { block_num: 1, data: vec![7u8; 1024] }.serialize().unwrap(), from);
            let _ = recv(&c);
            let _ = c.send_to(&Packet::Error { code: ErrorCode::NotDefined, msg: "stop".into() }.serialize().unwrap(), from);
            std::thread::sleep(Duration::from_millis(60));
            if let Ok(left) = std::fs::read(s.recv_dir.join("existing.bin")) {
                out.add("C13", s, format!("an accepted overwrite of existing.bin was aborted by the peer after one block: the partial file ({} bytes) is left behind although clean-on-error is in force", left.len()));
            }
            std::fs::write(s.recv_dir.join("existing.bin"), b"OLD CONTENT OF AN EXISTING UPLOAD").unwrap();
        }
    }
    if !(s.cfg.overwrite && !s.cfg.read_only) {
        std::thread::sleep(Duration::from_millis(30));
        let after = dir_snapshot(&s.root);
        if before != after {
            let changed: Vec<_> = after.iter().filter(|x| !before.contains(x)).map(|x| x.0.clone()).collect();
            let outside = changed.iter().any(|p| !p.starts_with(&s.recv_dir));
            out.add(if outside { "C03" } else { "C06" }, s, format!("refused write requests changed the file system: {:?}", changed));
        }
    }
    // absolute request paths name files below the served directory (leading separators are dropped), never the absolute path
    {
        let abs_secret = format!("{}/secret.txt", s.root.display());
        let c = client();
        c.send_to(&rrq(&abs_secret, vec![]), s.addr).unwrap();
        if let Some((Packet::Data { data, .. }, _)) = recv(&c) {
            if data.starts_with(b"TOP SECRET") {
                out.add("C03", s, format!("RRQ {:?} (an absolute path outside the send directory) was answered with the file's content", abs_secret));
            }
        }
        if !s.cfg.read_only {
            for lead in ["", "/"] {
                let abs_planted = format!("{lead}{}/planted-abs.txt", s.root.display());
                let c = client();
                c.send_to(&wrq(&abs_planted, vec![]), s.addr).unwrap();
                if let Some((Packet::Ack(0), from)) = recv(&c) {
                    let _ = c.send_to(&Packet::Data { block_num: 1, data: b"planted".to_vec() }.serialize().unwrap(), from);
                    let _ = recv(&c);
                }
                std::thread::sleep(Duration::from_millis(30));
                if s.root.join("planted-abs.txt").exists() {
                    out.add("C03", s, format!("WRQ {:?} (an absolute path outside the receive directory) created {}", abs_planted, s.root.join("planted-abs.txt").display()));
                    let _ = std::fs::remove_file(s.root.join("planted-abs.txt"));
                }
            }
        }
    }
    // ... also when the absolute path names a NEIGHBOUR of the served directory whose name starts with the directory's name
    // (data / data.old), with one, two or three leading separators in either spelling
    for (dir, write) in [(&s.send_dir, false), (&s.recv_dir, true)] {
        let neighbour = PathBuf::from(format!("{}.old", dir.display()));
        std::fs::create_dir_all(&neighbour).unwrap();
        std::fs::write(neighbour.join("secret.txt"), b"TOP SECRET in a neighbour of the served directory").unwrap();
        for lead in ["", "/", "//", "\\", "/\\"] {
            if !write {
                let name = format!("{lead}{}/secret.txt", neighbour.display());
                let c = client();
                c.send_to(&rrq(&name, vec![]), s.addr).unwrap();
                if let Some((Packet::Data { data, .. }, _)) = recv(&c) {
                    if data.starts_with(b"TOP SECRET") {
                        out.add("C03", s, format!("RRQ {:?} (an absolute path to a neighbour of the send directory) was answered with the file's content", name));
                    }
                }
            } else if !s.cfg.read_only {
                let name = format!("{lead}{}/planted-nb.txt", neighbour.display());
                let c = client();
                c.send_to(&wrq(&name, vec![]), s.addr).unwrap();
                if let Some((Packet::Ack(0), from)) = recv(&c) {
                    let _ = c.send_to(&Packet::Data { block_num: 1, data: b"planted".to_vec() }.serialize().unwrap(), from);
                    let _ = recv(&c);
                }
                std::thread::sleep(Duration::from_millis(30));
                if neighbour.join("planted-nb.txt").exists() {
                    out.add("C03", s, format!("WRQ {:?} (an absolute path to a neighbour of the receive directory) created {}", name, neighbour.join("planted-nb.txt").display()));
                    let _ = std::fs::remove_file(neighbour.join("planted-nb.txt"));
                }
            }
        }
    }
    if s.cfg.overwrite && !s.cfg.read_only {
        // a completed upload onto a longer existing file replaces the old content entirely (C06)
        std::fs::write(s.recv_dir.join("longer.bin"), vec![0xEEu8; 3000]).unwrap();
        let c = client();
        c.send_to(&wrq("longer.bin", vec![]), s.addr).unwrap();
        if let Some((Packet::Ack(0), from)) = recv(&c) {
            c.send_to(&Packet::Data { block_num: 1, data: b"short new content".to_vec() }.serialize().unwrap(), from).unwrap();
            let _ = recv(&c);
            std::thread::sleep(Duration::from_millis(60));
            let stored = std::fs::read(s.recv_dir.join("longer.bin")).unwrap_or_default();
            if stored != b"short new content" {
                out.add("C06", s, format!("with --overwrite, a completed 17-byte upload onto a 3000-byte file left {} bytes on disk: the old content was not replaced entirely", stored.len()));
            }
        }
        let _ = std::fs::remove_file(s.recv_dir.join("longer.bin"));
    }
    if !s.cfg.read_only {
        let c = client();
        c.send_to(&wrq("new-upload.bin", vec![]), s.addr).unwrap();
        match recv(&c) {
            Some((Packet::Ack(0), from)) => {
                c.send_to(&Packet::Data { block_num: 1, data: b"fresh upload".to_vec() }.serialize().unwrap(), from).unwrap();
                let r2 = recv(&c);
                std::thread::sleep(Duration::from_millis(30));
                let stored = std::fs::read(s.recv_dir.join("new-upload.bin")).ok();
                if !matches!(r2, Some((Packet::Ack(1), _))) || stored.as_deref() != Some(b"fresh upload".as_ref()) {
                    out.add("C09", s, format!("plain WRQ: after DATA 1 got {:?}, file in the receive directory = {:?}", r2.map(|x| verif_replay::fmt_packet(&x.0)), stored.map(|v| v.len())));
                }
                if s.cfg.distinct && s.send_dir.join("new-upload.bin").exists() {
                    out.add("C03", s, "an upload was stored in the send directory".to_string());
                }
            }
            other => out.add("C09", s, format!("plain WRQ was answered with {:?} instead of ACK 0", other.map(|x| verif_replay::fmt_packet(&x.0)))),
        }
    }
    }
    // ---- C13 / C07: a peer that falls silent in the middle of an upload: the worker gives up and removes the partial file ----
    if want(&["C13", "C07"]) {
    if !s.cfg.read_only && !s.cfg.overwrite && !s.cfg.distinct && !s.cfg.trailing_sep {
        let c = client();
        c.send_to(&wrq("abandoned.bin", vec![opt(OptionType::Timeout, 1)]), s.addr).unwrap();
        if let Some((Packet::Oack(_), from)) = recv(&c) {
            c.send_to(&Packet::Data { block_num: 1, data: vec![9u8; 512] }.serialize().unwrap(), from).unwrap();
            let _ = recv(&c);
            // silence: six time-outs of one second each
            let t0 = std::time::Instant::now();
            let path = s.recv_dir.join("abandoned.bin");
            while path.exists() && t0.elapsed() < Duration::from_secs(14) {
                std::thread::sleep(Duration::from_millis(200));
            }
            if path.exists() {
                out.add("C13", s, "an upload (timeout option 1 s) whose peer fell silent after block 1: the partial file is still there after 14 s of silence although clean-on-error is in force".to_string());
                out.add("C07", s, "an upload (timeout option 1 s) whose peer fell silent after block 1: the receiving worker has not given up after 14 s of silence".to_string());
            }
        }
    }
    }
    // ---- C07: the peer's ERROR in the middle of a download ends the transfer at once: nothing more is sent -------------------
    if want(&["C07"]) {
    if !s.cfg.read_only && !s.cfg.overwrite && !s.cfg.distinct && !s.cfg.trailing_sep {
        let c = client();
        c.send_to(&rrq("hello.bin", vec![opt(OptionType::Timeout, 1)]), s.addr).unwrap();
        if let Some((Packet::Oack(_), from)) = recv(&c) {
            c.send_to(&Packet::Ack(0).serialize().unwrap(), from).unwrap();
            if let Some((Packet::Data { block_num: 1, .. }, _)) = recv(&c) {
                c.send_to(&Packet::Error { code: ErrorCode::DiskFull, msg: "stop".to_string() }.serialize().unwrap(), from).unwrap();
                // one time-out (1 s) and a half: a sender that did not see the ERROR retransmits DATA 1 in that time
                c.set_read_timeout(Some(Duration::from_millis(2500))).unwrap();
                let mut buf = [0u8; 1024];
                if let Ok((n, _)) = c.recv_from(&mut buf) {
                    let what = Packet::deserialize(&buf[..n]).map(|p| verif_replay::fmt_packet(&p)).unwrap_or_else(|_| format!("{n} bytes"));
                    out.add("C07", s, format!("download of hello.bin (timeout option 1 s): after DATA 1 the peer sent ERROR 3; the server went on and sent {what}"));
                }
            }
        }
    }
    }
    // ---- C12: two interleaved transfers stay separate; an endpoint may start another transfer after its first one ------
    if want(&["C12"]) {
    {
        // lock-step download of `name` by socket `c`, one step per call: returns the bytes received so far
        fn step(c: &UdpSocket, srv: SocketAddr, state: &mut (Option<SocketAddr>, u16, Vec<u8>, bool)) {
            if state.3 { return; }
            if let Some((Packet::Data { block_num, data }, from)) = recv(c) {
                if block_num == state.1 + 1 {
                    state.1 = block_num;
                    state.2.extend_from_slice(&data);
                    if data.len() < 512 { state.3 = true; }
                }
                state.0 = Some(from);
                let _ = c.send_to(&Packet::Ack(state.1).serialize().unwrap(), from);
            } else if let Some(from) = state.0 {
                let _ = c.send_to(&Packet::Ack(state.1).serialize().unwrap(), from);
            }
            let _ = srv;
        }
        let want_a: Vec<u8> = (0..3000u32).map(|i| (i % 253) as u8).collect();
        let want_b: Vec<u8> = b"inner".to_vec();
        let a = client();
        let b = client();
        let mut sa = (None, 0u16, Vec::new(), false);
        let mut sb = (None, 0u16, Vec::new(), false);
        a.send_to(&rrq("hello.bin", vec![]), s.addr).unwrap();
        step(&a, s.addr, &mut sa);
        b.send_to(&rrq("sub/inner.txt", vec![]), s.addr).unwrap();
        step(&b, s.addr, &mut sb);
        for _ in 0..12 {
            step(&a, s.addr, &mut sa);
            step(&b, s.addr, &mut sb);
        }
        if sa.2 != want_a || sb.2 != want_b {
            out.add("C12", s, format!("two interleaved downloads (3000-byte hello.bin and 5-byte sub/inner.txt from two endpoints): the first endpoint received {} bytes ({}), the second {} bytes ({})",
                sa.2.len(), if sa.2 == want_a { "correct" } else { "WRONG" }, sb.2.len(), if sb.2 == want_b { "correct" } else { "WRONG" }));
        }
        // an endpoint whose transfer has ended owns no transfer any more: a stray ACK from it is answered with ERROR 4
        std::thread::sleep(Duration::from_millis(80));
        b.send_to(&Packet::Ack(1).serialize().unwrap(), s.addr).unwrap();
        let r = recv(&b);
        if !is_error(&r, ErrorCode::IllegalOperation, s.addr) {
            out.add("C12", s, format!("ACK 1 sent to the listening port by an endpoint whose download had already completed was answered with {:?} instead of ERROR 4", r.map(|x| verif_replay::fmt_packet(&x.0))));
        }
        // the same endpoint asks again after its transfer has ended
        let mut sb2 = (None, 0u16, Vec::new(), false);
        b.send_to(&rrq("sub/inner.txt", vec![]), s.addr).unwrap();
        for _ in 0..3 { step(&b, s.addr, &mut sb2); }
        if sb2.2 != want_b {
            out.add("C12", s, format!("an endpoint that had completed one download asked for sub/inner.txt again: received {:?} instead of the file", sb2.2));
        }
    }
    }
    // ---- C12: non-request packets from an endpoint that owns no transfer -------------------------------------------
    if want(&["C12"]) {
    for p in [Packet::Ack(1), Packet::Data { block_num: 1, data: vec![1, 2, 3] }, Packet::Oack(vec![]), Packet::Error { code: ErrorCode::NotDefined, msg: "x".into() }] {
        let c = client();
        c.send_to(&p.serialize().unwrap(), s.addr).unwrap();
        let r = recv(&c);
        if !is_error(&r, ErrorCode::IllegalOperation, s.addr) {
            out.add("C12", s, format!("{} from an endpoint that owns no transfer was answered with {:?} instead of ERROR 4", verif_replay::fmt_packet(&p), r.map(|x| verif_replay::fmt_packet(&x.0))));
        }
    }
    }
    // ---- C05: hostile datagrams, then a valid request must still be served --------------------------------------------
    if want(&["C05"]) {
    let mut hostile: Vec<(String, Vec<u8>)> = vec![
        ("empty".into(), vec![]), ("1 byte".into(), vec![0]), ("DATA 2 bytes".into(), vec![0, 3]), ("DATA 3 bytes".into(), vec![0, 3, 0]),
        ("ACK 3 bytes".into(), vec![0, 4, 0]), ("ERROR 2 bytes".into(), vec![0, 5]), ("ERROR 3 bytes".into(), vec![0, 5, 0]), ("ERROR code 9".into(), vec![0, 5, 0, 9, 0]),
        ("opcode 0".into(), vec![0, 0, 1, 2]), ("opcode 7".into(), vec![0, 7, 1, 2]), ("opcode 0xffff".into(), vec![255, 255]),
        ("RRQ no NUL".into(), vec![0, 1, b'a', b'b']), ("RRQ invalid utf8".into(), vec![0, 1, 0xff, 0xfe, 0, b'o', 0]),
        ("RRQ option without value".into(), [&[0u8, 1][..], b"hello.bin\0octet\0blksize\0"].concat()),
        ("RRQ with one NUL of padding".into(), [&[0u8, 1][..], b"hello.bin\0octet\0\0"].concat()),
        ("RRQ with an empty option name".into(), [&[0u8, 1][..], b"hello.bin\0octet\0blksize\0512\0\0\0"].concat()),
        ("WRQ with two NULs of padding".into(), [&[0u8, 2][..], b"pad.bin\0octet\0\0\0"].concat()),
        ("OACK with an empty option name".into(), vec![0, 6, 0, 0]),
        ("ERROR code 8".into(), vec![0, 5, 0, 8, b'x', 0]),
        ("OACK junk".into(), vec![0, 6, 1, 2, 3]), ("2000 bytes".into(), vec![0x41; 2000]),
    ];
    for v in ["18446744073709551615", "18446744073709551616", "340282366920938463463374607431768211456", "-1", "abc", ""] {
        for name in ["blksize", "timeout", "windowsize", "tsize", "BLKSIZE", "unknown"] {
            hostile.push((format!("RRQ {name}={v}"), [&[0u8, 1][..], b"hello.bin\0octet\0", name.as_bytes(), b"\0", v.as_bytes(), b"\0"].concat()));
        }
    }
    // values far beyond memory whose low 16 / 32 bits look harmless (a truncating range check would let them through)
    for v in ["4611686018427388416", "281474976711680", "4294967808", "65537", "66048"] {
        for name in ["blksize", "windowsize", "timeout"] {
            hostile.push((format!("RRQ {name}={v}"), [&[0u8, 1][..], b"hello.bin\0octet\0", name.as_bytes(), b"\0", v.as_bytes(), b"\0"].concat()));
        }
    }
    for (width, ch) in [(2usize, "é"), (3, "€"), (4, "𝄞")] {
        for lead in 0..width {
            for kind in [1u8, 2u8] {
                for prefix in ["", "../"] {
                    let mut name = String::from(prefix);
                    name.push_str(&"a".repeat(lead));
                    while name.len() + width <= 500 { name.push_str(ch); }
                    hostile.push((format!("{} long name of {width}-byte characters, lead {lead}, prefix {prefix:?}", if kind == 1 { "RRQ" } else { "WRQ" }), [&[0u8, kind][..], name.as_bytes(), b"\0octet\0"].concat()));
                }
            }
        }
    }
    {
        // history: an accepted request with the smallest block size, then an ordinary request (single-port servers share one receive buffer)
        let h = client();
        h.send_to(&rrq("hello.bin", vec![opt(OptionType::BlockSize, 8)]), s.addr).unwrap();
        if let Some((Packet::Oack(_), from)) = recv(&h) {
            let _ = h.send_to(&Packet::Ack(0).serialize().unwrap(), from);
            let _ = recv(&h);
            let _ = h.send_to(&Packet::Error { code: ErrorCode::NotDefined, msg: "stop".into() }.serialize().unwrap(), from);
        }
        let c = client();
        c.send_to(&rrq("sub/inner.txt", vec![]), s.addr).unwrap();
        match recv(&c) {
            Some((Packet::Data { block_num: 1, data }, _)) if data == b"inner" => {}
            other => out.add("C05", s, format!("after a valid RRQ with blksize=8 had been accepted, the server no longer serves a plain valid request (got {:?})", other.map(|x| verif_replay::fmt_packet(&x.0)))),
        }
    }
    for (what, bytes) in hostile {
        // (a datagram that makes an allocation fail aborts this whole process: the runner reads the last PROBE line then)
        println!("PROBE server config {:?}: datagram '{}' ({} bytes)", s.cfg, what, bytes.len());
        let h = client();
        h.set_read_timeout(Some(Duration::from_millis(20))).unwrap();
        h.send_to(&bytes, s.addr).unwrap();
        if let Some((Packet::Oack(_), from)) = recv(&h) {
            // play along one step so that an accepted request reaches its worker, then stop it
            let _ = h.send_to(&Packet::Ack(0).serialize().unwrap(), from);
            let _ = recv(&h);
            let _ = h.send_to(&Packet::Error { code: ErrorCode::NotDefined, msg: "stop".into() }.serialize().unwrap(), from);
        }
        let c = client();
        c.send_to(&rrq("sub/inner.txt", vec![]), s.addr).unwrap();
        match recv(&c) {
            Some((Packet::Data { block_num: 1, data }, _)) if data == b"inner" => {}
            other => {
                out.add("C05", s, format!("after the datagram '{}' ({} bytes) the server no longer serves a valid request (got {:?})", what, bytes.len(), other.map(|x| verif_replay::fmt_packet(&x.0))));
                break;
            }
        }
    }
    }
}

fn main() {
    let which = std::env::args().nth(1).unwrap_or_else(|| "all".into());
    let base = scratch_dir("listener");
    let mut out = Out { w: Vec::new() };
    let mut n = 0;
    for distinct in [false, true] {
        for (read_only, overwrite) in [(false, false), (false, true), (true, false)] {
            for single in [false, true] {
                for trailing_sep in [false, true] {
                    if trailing_sep && (single || overwrite) { continue; }
                    n += 1;
                    let cfg = Cfg { distinct, trailing_sep, read_only, overwrite, single };
                    let s = start(&base, n, &cfg);
                    check_server(&s, &mut out, &which);
                }
            }
        }
    }
    let mut by: std::collections::BTreeMap<&str, Vec<String>> = Default::default();
    for (p, t) in &out.w { by.entry(p).or_default().push(t.clone()); }
    let mut found = false;
    for (p, ts) in &by {
        if which == "all" || which == *p {
            found = true;
            println!("WITNESS property={} ({} case(s)); first: {}", p, ts.len(), ts[0]);
        }
    }
    println!("listener: servers={} witnesses={} (bounded catalogue; finding nothing proves nothing)", n, out.w.len());
    let _ = std::fs::remove_dir_all(&base);
    std::process::exit(if found { 1 } else { 0 });
}
