//! BOUNDED stand-in (never counted as proved) for the ASSUMED contract of `Convert::to_string` (C10):
//! exhaustive over all byte strings of length 0..=6 over the alphabet {00, 'a', C3, A9, FF} and all start
//! offsets 0..=len.  Checks exactly the clauses assumed in contracts/convert.contract.  exit 1 on a violation.
use tftpd::Convert;

fn main() {
    let alphabet = [0x00u8, b'a', 0xC3, 0xA9, 0xFF];
    let mut cases: u64 = 0;
    let mut oks: u64 = 0;
    for len in 0..=6usize {
        let n = alphabet.len().pow(len as u32);
        for code in 0..n {
            let mut c = code;
            let mut buf = Vec::new();
            for _ in 0..len {
                buf.push(alphabet[c % alphabet.len()]);
                c /= alphabet.len();
            }
            for start in 0..=len {
                cases += 1;
                let r = std::panic::catch_unwind(|| Convert::to_string(&buf, start));
                let r = match r {
                    Ok(r) => r,
                    Err(_) => {
                        println!("COUNTEREXAMPLE: Convert::to_string({:02x?}, {}) panicked although start <= len", buf, start);
                        std::process::exit(1);
                    }
                };
                let first_nul = buf[start..].iter().position(|b| *b == 0).map(|i| i + start);
                let bad = |why: &str| {
                    println!("COUNTEREXAMPLE: Convert::to_string({:02x?}, {}) violates the assumed contract: {}", buf, start, why);
                    std::process::exit(1);
                };
                match (&r, first_nul) {
                    (Ok((s, i)), Some(z)) => {
                        oks += 1;
                        if *i != z {
                            bad("index is not the first NUL at or after start");
                        }
                        if std::str::from_utf8(&buf[start..z]).ok() != Some(s.as_str()) {
                            bad("string is not the UTF-8 decoding of the bytes before the NUL");
                        }
                    }
                    (Ok(_), None) => bad("Ok although no NUL follows"),
                    (Err(_), Some(z)) => {
                        if std::str::from_utf8(&buf[start..z]).is_ok() {
                            bad("Err although a NUL follows valid UTF-8");
                        }
                    }
                    (Err(_), None) => {}
                }
            }
        }
    }
    println!("bounded_to_string: cases={} ok_results={} violations=0", cases, oks);
}
