//! Demonstration of defect D4 (blksize not validated) against the real server, over loopback UDP.
//! The server runs in a child process (this binary re-executed with `serve`), because the defect
//! kills the whole process.  exit 0 = does not manifest, exit 1 = manifests.
use std::net::UdpSocket;
use std::process::{Command, Stdio};
use std::time::Duration;
use tftpd::{Config, OptionType, Packet, Server, TransferOption};
use verif_replay::scratch_dir;

fn serve(dir: &str, port: &str) {
    let args: Vec<String> = ["tftpd", "-d", dir, "-p", port].iter().map(|s| s.to_string()).collect();
    let config = Config::new(args.into_iter()).unwrap();
    let mut server = Server::new(&config).unwrap();
    server.listen();
}

fn rrq(blk: usize) -> Vec<u8> {
    rrq_opt(OptionType::BlockSize, blk)
}

fn rrq_opt(option: OptionType, value: usize) -> Vec<u8> {
    Packet::Rrq {
        filename: "f.bin".into(),
        mode: "octet".into(),
        options: vec![TransferOption { option, value }],
    }
    .serialize()
    .unwrap()
}

/// D9: a timeout option the server cannot honour (2^64-1 s) is acknowledged; the transfer then dies in
/// `self.timeout + TIMEOUT_BUFFER` (overflow panic in the worker thread) instead of sending DATA 1.
fn d9(server: &str) -> bool {
    let c = UdpSocket::bind("127.0.0.1:0").unwrap();
    c.set_read_timeout(Some(Duration::from_millis(1500))).unwrap();
    let huge = usize::MAX;
    println!("client -> RRQ f.bin timeout={huge}");
    c.send_to(&rrq_opt(OptionType::Timeout, huge), server).unwrap();
    let mut buf = [0u8; 2048];
    let mut acknowledged = false;
    let mut got_data = false;
    if let Ok((n, from)) = c.recv_from(&mut buf) {
        let p = Packet::deserialize(&buf[..n]);
        println!("server -> {:?}", p);
        if let Ok(Packet::Oack(_)) = p {
            acknowledged = true;
            println!("client -> ACK 0");
            c.send_to(&Packet::Ack(0).serialize().unwrap(), from).unwrap();
            if let Ok((n, _)) = c.recv_from(&mut buf) {
                println!("server -> {:?}", Packet::deserialize(&buf[..n]).map(|p| verif_replay::fmt_packet(&p)));
                got_data = true;
            } else {
                println!("server -> (nothing: the transfer died)");
            }
        }
    } else {
        println!("server -> (no reply)");
    }
    println!("timeout 2^64-1 acknowledged: {acknowledged}; DATA 1 followed: {got_data}");
    acknowledged && !got_data
}

fn main() {
    let a: Vec<String> = std::env::args().collect();
    if a.len() > 1 && a[1] == "serve" {
        serve(&a[2], &a[3]);
        return;
    }
    let dir = scratch_dir("d4");
    std::fs::write(dir.join("f.bin"), vec![7u8; 100]).unwrap();
    // find a free port
    let probe = UdpSocket::bind("127.0.0.1:0").unwrap();
    let port = probe.local_addr().unwrap().port();
    drop(probe);
    let mut child = Command::new(std::env::current_exe().unwrap())
        .args(["serve", dir.to_str().unwrap(), &port.to_string()])
        .stdout(Stdio::null())
        .spawn()
        .unwrap();
    std::thread::sleep(Duration::from_millis(300));
    let c = UdpSocket::bind("127.0.0.1:0").unwrap();
    c.set_read_timeout(Some(Duration::from_millis(700))).unwrap();
    let server = format!("127.0.0.1:{port}");
    if a.len() > 1 && a[1] == "d9" {
        let m = d9(&server);
        let _ = child.kill();
        let _ = child.wait();
        println!("== D9 {}", if m { "MANIFESTS" } else { "does not manifest" });
        std::process::exit(if m { 1 } else { 0 });
    }
    let big: usize = 1 << 62;
    println!("client -> RRQ f.bin blksize={big}");
    c.send_to(&rrq(big), &server).unwrap();
    let mut buf = [0u8; 2048];
    let mut acknowledged = false;
    match c.recv_from(&mut buf) {
        Ok((n, from)) => {
            let p = Packet::deserialize(&buf[..n]);
            println!("server -> {:?}", p);
            if let Ok(Packet::Oack(_)) = p {
                acknowledged = true;
                println!("client -> ACK 0");
                c.send_to(&Packet::Ack(0).serialize().unwrap(), from).unwrap();
            }
        }
        Err(_) => println!("server -> (no reply)"),
    }
    std::thread::sleep(Duration::from_millis(500));
    let died = child.try_wait().unwrap();
    println!("server process after the request: {:?}", died);
    // a following valid request must still be served
    let c2 = UdpSocket::bind("127.0.0.1:0").unwrap();
    c2.set_read_timeout(Some(Duration::from_millis(700))).unwrap();
    c2.send_to(&rrq(512), &server).unwrap();
    let served = match c2.recv_from(&mut buf) {
        Ok((n, _)) => {
            println!("second request answered: {:?}", Packet::deserialize(&buf[..n]).map(|p| verif_replay::fmt_packet(&p)));
            true
        }
        Err(_) => {
            println!("second request: no answer");
            false
        }
    };
    let _ = child.kill();
    let _ = child.wait();
    println!("out-of-range blksize acknowledged: {acknowledged}");
    let manifests = died.is_some() || !served || acknowledged;
    println!("== D4 {}", if manifests { "MANIFESTS" } else { "does not manifest" });
    std::process::exit(if manifests { 1 } else { 0 });
}
