//! BOUNDED stand-in (never counted as proved) for C14: the functions `Client::upload` / `Client::download` are outside
//! Verus (associated constants of external types), and interoperation of two endpoints is not a function contract.
//! This program runs the REAL bundled client (`ClientConfig::new` -> `Client::new` -> `run`) against REAL servers
//! (`Server::listen` in a thread, loopback UDP, multi-port and single-port) over a grid and compares the files:
//!   direction {download, upload} x blksize {8, 512, 1468} x windowsize {1, 3} x timeout option 2 s x
//!   file size {0, 1, blk-1, blk, blk+1, ws*blk, ws*blk+1, 3*ws*blk+7} x {multi-port, single-port},
//!   a nested / Windows-style request path (stored under its base name), three downloads of one name whose content shrinks
//!   (2000, 300, 0 bytes) into one directory, one transfer of more than 65535 blocks (windowsize 64),
//!   and the refusal kinds (missing file, existing file without overwrite, read-only server): the client must report an
//!   error and create no file.  When the runner has built the real binaries (VERIF_TFTPD / VERIF_TFTPC), four downloads and
//!   four uploads per port mode and one refusal are repeated with `tftpd` and `tftpc` as processes (main.rs / client_main.rs).
//! exit 1 with a COUNTEREXAMPLE line on a violation.   usage: bounded_client [quick|full]
use std::net::UdpSocket;
use std::path::{Path, PathBuf};
use std::time::{Duration, Instant};
use tftpd::{Client, ClientConfig, Config, Server};
use verif_replay::scratch_dir;

fn free_port() -> u16 {
    UdpSocket::bind("127.0.0.1:0").unwrap().local_addr().unwrap().port()
}

struct Srv {
    port: u16,
    send_dir: PathBuf,
    recv_dir: PathBuf,
    single: bool,
}

fn start(base: &Path, name: &str, single: bool, read_only: bool) -> Srv {
    let root = base.join(name);
    let send_dir = root.join("out");
    let recv_dir = root.join("in");
    std::fs::create_dir_all(send_dir.join("sub")).unwrap();
    std::fs::create_dir_all(&recv_dir).unwrap();
    let port = free_port();
    let mut args: Vec<String> = vec![
        "tftpd".into(), "-p".into(), port.to_string(),
        "-sd".into(), send_dir.display().to_string(), "-rd".into(), recv_dir.display().to_string(),
    ];
    if single { args.push("-s".into()); }
    if read_only { args.push("-r".into()); }
    let config = Config::new(args.into_iter()).unwrap();
    let mut server = Server::new(&config).unwrap();
    std::thread::spawn(move || server.listen());
    std::thread::sleep(Duration::from_millis(30));
    Srv { port, send_dir, recv_dir, single }
}

fn content(n: usize, salt: usize) -> Vec<u8> {
    (0..n).map(|i| ((i * 31 + salt * 7 + i / 251) % 256) as u8).collect()
}

fn fail(what: String) -> ! {
    println!("COUNTEREXAMPLE: {what}");
    std::process::exit(1);
}

fn run_client(srv: &Srv, upload: bool, file: &str, blk: usize, ws: u16, recv_dir: &Path) -> Result<(), String> {
    let mut args: Vec<String> = vec![
        file.into(), "-p".into(), srv.port.to_string(), "-b".into(), blk.to_string(), "-w".into(), ws.to_string(),
        "-t".into(), "2".into(), "-rd".into(), recv_dir.display().to_string(),
    ];
    args.push(if upload { "-u".into() } else { "-d".into() });
    let cfg = ClientConfig::new(args.into_iter()).map_err(|e| format!("ClientConfig::new: {e}"))?;
    let mut client = Client::new(&cfg).map_err(|e| format!("Client::new: {e}"))?;
    // the client waits for the first reply without a time-out: a server that never answers would hang this program
    let (tx, rx) = std::sync::mpsc::channel();
    std::thread::spawn(move || {
        let _ = tx.send(client.run().map_err(|e| e.to_string()));
    });
    match rx.recv_timeout(Duration::from_secs(60)) {
        Ok(r) => r,
        Err(_) => fail(format!("{} of {:?} (blksize {blk}, windowsize {ws}): the client got no answer and no error within 60 s", if upload { "upload" } else { "download" }, file)),
    }
}

fn wait_for(path: &Path, want: &[u8]) -> Result<(), String> {
    let t0 = Instant::now();
    loop {
        let got = std::fs::read(path).ok();
        if got.as_deref() == Some(want) {
            return Ok(());
        }
        if t0.elapsed() > Duration::from_secs(30) {
            return Err(match got {
                None => format!("{} does not exist", path.display()),
                Some(g) => format!("{} holds {} bytes, expected {} (first difference at {:?})", path.display(), g.len(), want.len(),
                                   g.iter().zip(want.iter()).position(|(a, b)| a != b)),
            });
        }
        std::thread::sleep(Duration::from_millis(10));
    }
}

fn main() {
    let _full = std::env::args().nth(1).map(|s| s == "full").unwrap_or(false);
    let base = scratch_dir("bounded_client");
    let mut cases = 0u64;
    for single in [false, true] {
        let srv = start(&base, if single { "single" } else { "multi" }, single, false);
        let mode = if single { "single-port" } else { "multi-port" };
        let mut n = 0usize;
        for blk in [8usize, 512, 1468] {
            for ws in [1u16, 3] {
                let w = ws as usize;
                for size in [0usize, 1, blk - 1, blk, blk + 1, w * blk, w * blk + 1, 3 * w * blk + 7] {
                    n += 1;
                    // download
                    cases += 1;
                    let name = format!("d{n}.bin");
                    let data = content(size, n);
                    std::fs::write(srv.send_dir.join(&name), &data).unwrap();
                    let cdir = base.join(format!("client-{mode}-{n}"));
                    std::fs::create_dir_all(&cdir).unwrap();
                    let what = format!("download of a {size}-byte file, blksize {blk}, windowsize {ws}, {mode}");
                    if let Err(e) = run_client(&srv, false, &name, blk, ws, &cdir) {
                        fail(format!("{what}: client reports {e}"));
                    }
                    if let Err(e) = wait_for(&cdir.join(&name), &data) {
                        fail(format!("{what}: {e}"));
                    }
                    // upload
                    cases += 1;
                    let name = format!("u{n}.bin");
                    let local = cdir.join(&name);
                    std::fs::write(&local, &data).unwrap();
                    let what = format!("upload of a {size}-byte file, blksize {blk}, windowsize {ws}, {mode}");
                    // (the client strips leading separators from the path it is given, so uploads are named relative to the cwd)
                    std::env::set_current_dir(&cdir).unwrap();
                    if let Err(e) = run_client(&srv, true, &name, blk, ws, &cdir) {
                        fail(format!("{what}: client reports {e}"));
                    }
                    if let Err(e) = wait_for(&srv.recv_dir.join(&name), &data) {
                        fail(format!("{what}: server side: {e}"));
                    }
                }
            }
        }
        // nested and Windows-style request paths: stored under the base name in the client's receive directory
        for (k, req) in ["sub/inner.bin", "sub\\inner.bin"].iter().enumerate() {
            cases += 1;
            let data = content(1000, 99);
            std::fs::write(srv.send_dir.join("sub/inner.bin"), &data).unwrap();
            let cdir = base.join(format!("client-{mode}-nested{k}"));
            std::fs::create_dir_all(&cdir).unwrap();
            let what = format!("download of {req:?}, {mode}");
            let expect_name = "inner.bin";
            match run_client(&srv, false, req, 512, 1, &cdir) {
                Ok(()) => {
                    if let Err(e) = wait_for(&cdir.join(&expect_name), &data) {
                        fail(format!("{what}: {e}"));
                    }
                }
                Err(e) => fail(format!("{what}: client reports {e}")),
            }
        }
        // a download into a directory that already holds a longer file of that name: the copy must equal the new content
        {
            cases += 1;
            let cdir = base.join(format!("client-{mode}-again"));
            std::fs::create_dir_all(&cdir).unwrap();
            for (round, size) in [(1, 2000usize), (2, 300), (3, 0)] {
                let data = content(size, 40 + round);
                std::fs::write(srv.send_dir.join("again.bin"), &data).unwrap();
                let what = format!("download number {round} of \"again.bin\" ({size} bytes now) into the same directory, {mode}");
                if let Err(e) = run_client(&srv, false, "again.bin", 512, 1, &cdir) {
                    fail(format!("{what}: client reports {e}"));
                }
                if let Err(e) = wait_for(&cdir.join("again.bin"), &data) {
                    fail(format!("{what}: {e}"));
                }
            }
        }
        // refusals: the client reports an error and creates no file
        cases += 1;
        let cdir = base.join(format!("client-{mode}-refusal"));
        std::fs::create_dir_all(&cdir).unwrap();
        match run_client(&srv, false, "missing.bin", 512, 1, &cdir) {
            Ok(()) => fail(format!("download of a missing file, {mode}: the client reports success")),
            Err(_) => {
                if cdir.join("missing.bin").exists() {
                    fail(format!("download of a missing file, {mode}: the client created {}", cdir.join("missing.bin").display()));
                }
            }
        }
        cases += 1;
        std::fs::write(srv.recv_dir.join("taken.bin"), b"ALREADY THERE").unwrap();
        let local = cdir.join("taken.bin");
        std::fs::write(&local, content(700, 5)).unwrap();
        std::env::set_current_dir(&cdir).unwrap();
        match run_client(&srv, true, "taken.bin", 512, 1, &cdir) {
            Ok(()) => fail(format!("upload onto an existing file without --overwrite, {mode}: the client reports success")),
            Err(_) => {
                std::thread::sleep(Duration::from_millis(50));
                if std::fs::read(srv.recv_dir.join("taken.bin")).unwrap() != b"ALREADY THERE" {
                    fail(format!("upload onto an existing file without --overwrite, {mode}: the server's file changed"));
                }
            }
        }
        if !srv.single {
            // more than 65535 blocks: block numbers wrap
            cases += 1;
            let size = 8 * 65537 + 3;
            let data = content(size, 1234);
            std::fs::write(srv.send_dir.join("big.bin"), &data).unwrap();
            let cdir = base.join("client-big");
            std::fs::create_dir_all(&cdir).unwrap();
            if let Err(e) = run_client(&srv, false, "big.bin", 8, 64, &cdir) {
                fail(format!("download of {size} bytes with blksize 8 (65538 blocks), windowsize 64: client reports {e}"));
            }
            if let Err(e) = wait_for(&cdir.join("big.bin"), &data) {
                fail(format!("download of {size} bytes with blksize 8 (65538 blocks), windowsize 64: {e}"));
            }
        }
    }
    // read-only server refuses uploads
    cases += 1;
    let ro = start(&base, "readonly", false, true);
    let cdir = base.join("client-readonly");
    std::fs::create_dir_all(&cdir).unwrap();
    let local = cdir.join("ro.bin");
    std::fs::write(&local, content(100, 3)).unwrap();
    std::env::set_current_dir(&cdir).unwrap();
    match run_client(&ro, true, "ro.bin", 512, 1, &cdir) {
        Ok(()) => fail("upload to a read-only server: the client reports success".to_string()),
        Err(_) => {
            std::thread::sleep(Duration::from_millis(50));
            if ro.recv_dir.join("ro.bin").exists() {
                fail("upload to a read-only server: the server stored the file".to_string());
            }
        }
    }
    std::env::set_current_dir("/").unwrap();
    // ---- the real binaries (main.rs / client_main.rs glue), when the runner has built them ---------------------------------
    if let (Ok(tftpd), Ok(tftpc)) = (std::env::var("VERIF_TFTPD"), std::env::var("VERIF_TFTPC")) {
        use std::process::{Command, Stdio};
        let root = base.join("bins");
        let (out_dir, in_dir, cdir) = (root.join("out"), root.join("in"), root.join("client"));
        for d in [&out_dir, &in_dir, &cdir] { std::fs::create_dir_all(d).unwrap(); }
        for single in [false, true] {
            let port = free_port();
            let mut args = vec!["-p".to_string(), port.to_string(), "-sd".into(), out_dir.display().to_string(), "-rd".into(), in_dir.display().to_string()];
            if single { args.push("-s".into()); }
            let mut server = Command::new(&tftpd).args(&args).stdout(Stdio::null()).stderr(Stdio::null()).spawn().unwrap();
            std::thread::sleep(Duration::from_millis(150));
            let mode = if single { "single-port" } else { "multi-port" };
            let run = |extra: &[&str], cwd: &Path| {
                let mut c = Command::new(&tftpc);
                c.args(extra).args(["-p", &port.to_string(), "-t", "2"]).current_dir(cwd).stdout(Stdio::null()).stderr(Stdio::piped());
                let child = c.spawn().unwrap();
                let (tx, rx) = std::sync::mpsc::channel();
                std::thread::spawn(move || { let _ = tx.send(child.wait_with_output()); });
                match rx.recv_timeout(Duration::from_secs(60)) {
                    Ok(Ok(o)) => String::from_utf8_lossy(&o.stderr).to_string(),
                    _ => "tftpc did not finish within 60 s".to_string(),
                }
            };
            for (k, (size, blk, ws)) in [(0usize, 512usize, 1u16), (1300, 512, 1), (5000, 1024, 4), (70000, 1468, 8)].iter().enumerate() {
                cases += 2;
                let data = content(*size, 40 + k);
                let name = format!("bin-d{k}-{mode}.bin");
                std::fs::write(out_dir.join(&name), &data).unwrap();
                let what = format!("tftpc download of a {size}-byte file (-b {blk} -w {ws}) from tftpd, {mode}");
                let err = run(&[&name, "-d", "-b", &blk.to_string(), "-w", &ws.to_string(), "-rd", cdir.to_str().unwrap()], &cdir);
                if let Err(e) = wait_for(&cdir.join(&name), &data) {
                    let _ = server.kill();
                    fail(format!("{what}: {e}; tftpc stderr: {:?}", err.trim()));
                }
                let name = format!("bin-u{k}-{mode}.bin");
                std::fs::write(cdir.join(&name), &data).unwrap();
                let what = format!("tftpc upload of a {size}-byte file (-b {blk} -w {ws}) to tftpd, {mode}");
                let err = run(&[&name, "-u", "-b", &blk.to_string(), "-w", &ws.to_string()], &cdir);
                if let Err(e) = wait_for(&in_dir.join(&name), &data) {
                    let _ = server.kill();
                    fail(format!("{what}: {e}; tftpc stderr: {:?}", err.trim()));
                }
            }
            cases += 1;
            let err = run(&["absent.bin", "-d", "-rd", cdir.to_str().unwrap()], &cdir);
            if err.trim().is_empty() || cdir.join("absent.bin").exists() {
                let _ = server.kill();
                fail(format!("tftpc download of a missing file, {mode}: stderr {:?}, file created: {}", err.trim(), cdir.join("absent.bin").exists()));
            }
            let _ = server.kill();
            let _ = server.wait();
        }
    }
    let _ = std::fs::remove_dir_all(&base);
    println!("bounded_client: cases={} violations=0", cases);
}
